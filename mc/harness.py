"""Runner infrastructure: environment pinning, worker pool, violation files, known findings,
evidence (DESIGN.md 2.6)."""
import hashlib
import json
import multiprocessing as mp
import os
import random
import shutil
import signal
import sys
import time
import traceback

VERIF = os.path.dirname(os.path.dirname(os.path.abspath(__file__)))
CACHE = os.path.join(VERIF, '.cache')
EVIDENCE_DIR = os.path.join(VERIF, 'evidence')
VIOL_DIR = os.path.join(VERIF, 'violations')
KNOWN_FILE = os.path.join(VERIF, 'known_findings.jsonl')


class HarnessError(Exception):
    pass


class UnownedRandomness(Exception):
    pass


class CaseTimeout(Exception):
    pass


# ----------------------------------------------------------------------------- environment

def repo_digest(repo):
    h = hashlib.sha256()
    root = os.path.join(repo, 'corankco')
    for dirpath, dirnames, filenames in sorted(os.walk(root)):
        dirnames.sort()
        for fn in sorted(filenames):
            if fn.endswith('.py'):
                p = os.path.join(dirpath, fn)
                h.update(os.path.relpath(p, root).encode())
                with open(p, 'rb') as f:
                    h.update(f.read())
    return h.hexdigest()[:20]


def pin_environment(repo, seed):
    """Re-exec once so that PYTHONHASHSEED (must be known at interpreter start), the numba cache
    directory and PYTHONPATH are fixed for this run."""
    if os.environ.get('MC_PINNED') == '1':
        return
    env = dict(os.environ)
    env['MC_PINNED'] = '1'
    env['PYTHONHASHSEED'] = str(1 + (seed * 7919) % 4000000000)
    digest = repo_digest(repo)
    numba_root = os.path.join(CACHE, 'numba')
    os.makedirs(numba_root, exist_ok=True)
    for d in os.listdir(numba_root):
        if d != digest:
            shutil.rmtree(os.path.join(numba_root, d), ignore_errors=True)
    env['NUMBA_CACHE_DIR'] = os.path.join(numba_root, digest)
    env['PYTHONPATH'] = repo + os.pathsep + VERIF
    env['PYTHONDONTWRITEBYTECODE'] = '1'
    env['MC_REPO'] = repo
    env['OMP_NUM_THREADS'] = '1'
    env['NUMBA_NUM_THREADS'] = '1'
    env['CORANKCO_VERIF'] = '1'
    os.execve(sys.executable, [sys.executable] + sys.argv, env)


_SENTINEL_NAMES = ['random', 'randint', 'choice', 'shuffle', 'sample', 'randrange', 'uniform', 'choices',
                   'getrandbits', 'gauss', 'betavariate', 'triangular', 'normalvariate', 'expovariate']


def install_random_sentinel():
    """Any draw from the global `random` module is routed to the active chooser (mc.chooser); a draw
    the chooser cannot own (random(), gauss(), ...) or one made while no chooser is active raises."""
    from . import chooser

    def make(name):
        def sentinel(*a, **k):
            raise UnownedRandomness("random.%s called: not an enumerable choice" % name)
        sentinel.__name__ = 'sentinel_' + name
        return sentinel
    for name in _SENTINEL_NAMES:
        setattr(random, name, chooser.DISPATCH.get(name) or make(name))


def import_library(with_cplex_stub):
    """Import corankco from MC_REPO (first on sys.path), optionally with the cplex stand-in
    installed first, and assert it really comes from there."""
    repo = os.environ['MC_REPO']
    if sys.path[0] != repo:
        sys.path.insert(0, repo)
    if with_cplex_stub:
        from . import envstub
        envstub.install_cplex_stub()
    install_random_sentinel()
    import corankco  # noqa
    got = os.path.dirname(os.path.dirname(os.path.abspath(corankco.__file__)))
    if os.path.realpath(got) != os.path.realpath(repo):
        raise HarnessError("corankco imported from %s, expected %s" % (got, repo))
    return corankco


# ----------------------------------------------------------------------------- watchdog

def _alarm(signum, frame):
    raise CaseTimeout()


class watchdog:
    def __init__(self, seconds=30):
        self.seconds = seconds

    def __enter__(self):
        signal.signal(signal.SIGALRM, _alarm)
        signal.alarm(self.seconds)

    def __exit__(self, *a):
        signal.alarm(0)
        return False


# ----------------------------------------------------------------------------- shard context

def innermost_corankco_frame(exc):
    tb = traceback.extract_tb(exc.__traceback__)
    site = None
    for fr in tb:
        if '/corankco/' in fr.filename:
            site = '%s:%s' % (fr.filename.split('/corankco/', 1)[1], fr.name)
    return site or 'outside-corankco'


def jsonable(x):
    import numpy as np
    if isinstance(x, (str, int, float, bool)) or x is None:
        return x
    if isinstance(x, (np.integer,)):
        return int(x)
    if isinstance(x, (np.floating,)):
        return float(x)
    if isinstance(x, np.ndarray):
        return jsonable(x.tolist())
    if isinstance(x, dict):
        return {str(k): jsonable(v) for k, v in x.items()}
    if isinstance(x, (list, tuple)):
        return [jsonable(v) for v in x]
    if isinstance(x, (set, frozenset)):
        return sorted((jsonable(v) for v in x), key=repr)
    return repr(x)


class Ctx:
    """Accumulates what one shard saw."""
    MAX_VIOL_PER_SIG = 3

    def __init__(self, prop):
        self.prop = prop
        self.evals = 0            # executions of the implementation
        self.cases = 0            # distinct cases (states)
        self.nontrivial = 0
        self.counters = {}
        self.outcomes = set()
        self.outcomes_saturated = False
        self.violations = []
        self._sig_counts = {}
        self.samples = []
        self.total_violations = 0

    def count(self, name, k=1):
        self.counters[name] = self.counters.get(name, 0) + k

    def outcome(self, key):
        if len(self.outcomes) < 20000:
            self.outcomes.add(hash(key) & 0xffffffffffff)
        else:
            self.outcomes_saturated = True

    def sample(self, case, every=0):
        c = jsonable(case)
        if len(self.samples) < 3:
            self.samples.append(c)
        else:
            # keep the three longest seen in this shard
            k = min(range(3), key=lambda i: len(json.dumps(self.samples[i])))
            if len(json.dumps(c)) > len(json.dumps(self.samples[k])):
                self.samples[k] = c

    def violation(self, clause, case, observed=None, expected=None, exc=None, message=None):
        site = innermost_corankco_frame(exc) if exc is not None else clause
        sig = (clause, site)
        self.total_violations += 1
        n = self._sig_counts.get(sig, 0)
        self._sig_counts[sig] = n + 1
        if n >= self.MAX_VIOL_PER_SIG:
            return
        v = {'property': self.prop, 'clause': clause, 'site': site, 'case': jsonable(case),
             'observed': jsonable(observed), 'expected': jsonable(expected)}
        if exc is not None:
            v['exception'] = '%s: %s' % (type(exc).__name__, exc)
            v['traceback'] = traceback.format_exception(type(exc), exc, exc.__traceback__)[-6:]
        if message:
            v['message'] = message
        self.violations.append(v)

    def result(self):
        return {'evals': self.evals, 'cases': self.cases, 'nontrivial': self.nontrivial,
                'counters': self.counters, 'outcomes': self.outcomes,
                'outcomes_saturated': self.outcomes_saturated, 'violations': self.violations,
                'sig_counts': {'%s @ %s' % k: v for k, v in self._sig_counts.items()},
                'samples': self.samples, 'total_violations': self.total_violations}


# ----------------------------------------------------------------------------- pool

_worker_check = None
_SLOT = 4096
_slots = None        # shared byte array, one slot per worker: "<timestamp>\n<json case>"
_slot_index = None
_my_slot = None


def mark(case):
    """Record (in shared memory) the execution this worker is about to start, so that the parent can
    name the input when the library never returns (jitted code cannot be interrupted from Python)."""
    if _my_slot is None:
        return
    try:
        blob = ('%f\n' % time.time()).encode() + json.dumps(jsonable(case)).encode()
    except Exception:
        blob = ('%f\n' % time.time()).encode() + repr(case).encode()
    blob = blob[:_SLOT - 1] + b'\0'
    base = _my_slot * _SLOT
    _slots[base:base + len(blob)] = blob


def _worker_init(modname, cfg, slots, slot_index):
    global _worker_check, _slots, _my_slot
    try:
        import importlib
        _slots = slots
        with slot_index.get_lock():
            _my_slot = slot_index.value
            slot_index.value += 1
        devnull = open(os.devnull, 'w')
        # the library prints on some parser errors; keep the real stdout for the parent only
        os.dup2(devnull.fileno(), 1)
        sys.stdout = devnull
        mod = importlib.import_module(modname)
        _worker_check = mod
        from . import spaces as _spaces
        # progress marks between executions: a shard that keeps enumerating is not a hang
        _spaces.ON_DATASET = lambda n, m, index: mark({'note': 'enumerating', 'block': [n, m], 'index': index})
        tmp = cfg.get('tmpdir')
        if tmp:
            wtmp = os.path.join(tmp, 'w%d' % os.getpid())
            os.makedirs(wtmp, exist_ok=True)
            os.environ['TMPDIR'] = wtmp
            import tempfile
            tempfile.tempdir = wtmp
            cfg = dict(cfg, worker_tmp=wtmp)
        mod.init_worker(cfg)
    except BaseException:
        sys.stderr.write("worker init failed:\n" + traceback.format_exc())
        sys.stderr.flush()
        raise


def _worker_run(shard):
    try:
        t0 = time.time()
        mark({'shard': shard, 'note': 'shard started, no execution marked yet'})
        res = _worker_check.run_shard(shard)
        res['wall'] = time.time() - t0
        mark({'idle': True})
        return ('ok', res)
    except BaseException:
        return ('error', {'shard': repr(shard)[:500], 'trace': traceback.format_exc()})


class Hang(Exception):
    def __init__(self, cases):
        Exception.__init__(self, "no termination")
        self.cases = cases


def run_pool(modname, cfg, shards, workers, hang_after=None):
    """Run shards on a fresh pool whose workers were initialised with cfg. Returns list of results.
    If a worker stays on ONE marked execution for more than `hang_after` seconds the pool is killed and
    Hang(cases) is raised with the inputs the library did not return from."""
    import multiprocessing.sharedctypes as sct
    hang_after = hang_after or float(cfg.get('hang_after', os.environ.get('MC_HANG_AFTER', 240)))
    ctx = mp.get_context('fork')
    results = []
    if not shards:
        return results
    nproc = min(workers, len(shards))
    slots = sct.RawArray('c', nproc * _SLOT)
    slot_index = ctx.Value('i', 0)
    pool = ctx.Pool(processes=nproc, initializer=_worker_init, initargs=(modname, cfg, slots, slot_index))
    try:
        it = pool.imap_unordered(_worker_run, shards, chunksize=1)
        done = 0
        while done < len(shards):
            try:
                status, res = it.next(timeout=15)
            except mp.TimeoutError:
                now = time.time()
                hung = []
                for w in range(nproc):
                    raw = slots[w * _SLOT:(w + 1) * _SLOT].split(b'\0', 1)[0]
                    if not raw:
                        continue
                    ts, _, body = raw.partition(b'\n')
                    try:
                        age = now - float(ts)
                        case = json.loads(body.decode())
                    except ValueError:
                        continue
                    if isinstance(case, dict) and case.get('idle'):
                        continue
                    if age > hang_after:
                        hung.append(case)
                if hung:
                    raise Hang(hung)
                continue
            done += 1
            if status == 'error':
                raise HarnessError("shard failed: %s\n%s" % (res['shard'], res['trace']))
            results.append(res)
    finally:
        pool.terminate()
        pool.join()
    return results


def merge(results):
    tot = {'evals': 0, 'cases': 0, 'nontrivial': 0, 'counters': {}, 'outcomes': set(),
           'outcomes_saturated': False, 'violations': [], 'sig_counts': {}, 'samples': [],
           'total_violations': 0}
    for r in results:
        tot['evals'] += r['evals']
        tot['cases'] += r['cases']
        tot['nontrivial'] += r['nontrivial']
        tot['total_violations'] += r['total_violations']
        for k, v in r['counters'].items():
            tot['counters'][k] = tot['counters'].get(k, 0) + v
        for k, v in r['sig_counts'].items():
            tot['sig_counts'][k] = tot['sig_counts'].get(k, 0) + v
        tot['outcomes'] |= r['outcomes']
        tot['outcomes_saturated'] |= r['outcomes_saturated']
        tot['violations'].extend(r['violations'])
        tot['samples'].extend(r['samples'][:3])
    # keep the few most informative (longest) samples, deterministic order
    tot['samples'] = sorted(tot['samples'], key=lambda x: (-len(json.dumps(x, sort_keys=True)), json.dumps(x, sort_keys=True)))[:4]
    return tot


# ----------------------------------------------------------------------------- known findings

def load_known(prop):
    known = []
    if os.path.exists(KNOWN_FILE):
        with open(KNOWN_FILE) as f:
            for line in f:
                line = line.strip()
                if not line or line.startswith('#') or line.startswith('fixed:'):
                    continue  # a fixed entry suppresses nothing
                try:
                    e = json.loads(line)
                except ValueError:
                    raise HarnessError("bad line in known_findings.jsonl: %r" % line)
                if e.get('property') == prop:
                    known.append(e)
    return known


def match_known(v, known):
    for e in known:
        if e.get('clause') == v['clause'] and e.get('site') == v['site']:
            return e
    return None


# ----------------------------------------------------------------------------- reporting

def write_violation(v):
    d = os.path.join(VIOL_DIR, v['property'])
    os.makedirs(d, exist_ok=True)
    blob = json.dumps(v, indent=1, sort_keys=True)
    name = hashlib.sha256(blob.encode()).hexdigest()[:12] + '.json'
    path = os.path.join(d, name)
    with open(path, 'w') as f:
        f.write(blob)
    # plain unittest that replays the case without the explorer
    tpath = path[:-5] + '_test.py'
    with open(tpath, 'w') as f:
        f.write("import subprocess, sys, unittest\n\n\nclass Replay(unittest.TestCase):\n"
                "    def test_replay(self):\n"
                "        r = subprocess.run([sys.executable, %r, %r, '--replay', %r])\n"
                "        self.assertEqual(r.returncode, 0)\n\n\nif __name__ == '__main__':\n    unittest.main()\n"
                % (os.path.join(VERIF, 'mc', 'run.py'), v['property'], path))
    return path


def write_evidence(prop, tier, seed, coverage, assumptions, wall, nviol):
    os.makedirs(EVIDENCE_DIR, exist_ok=True)
    ev = {'property_id': prop, 'tier': tier, 'seed': int(seed), 'level': 'model_checking',
          'coverage': coverage, 'assumptions': assumptions, 'wall_s': round(wall, 2),
          'violations': int(nviol)}
    path = os.path.join(EVIDENCE_DIR, prop + '.json')
    tmp = path + '.tmp'
    with open(tmp, 'w') as f:
        json.dump(jsonable(ev), f, indent=1, sort_keys=True)
    os.replace(tmp, path)
    return path

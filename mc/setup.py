#!/venv/bin/python
"""MANIFEST.setup_cmd: nothing to build (pure Python); verifies the toolchain offline and runs the
reference-model self check."""
import os
import sys
VERIF = os.path.dirname(os.path.dirname(os.path.abspath(__file__)))
sys.path.insert(0, VERIF)
from mc import refmodel, spaces  # noqa: E402
import numpy, pulp  # noqa: E402,F401
assert 'PULP_CBC_CMD' in pulp.listSolvers(onlyAvailable=True), 'bundled CBC missing'
refmodel.self_check()
os.makedirs(os.path.join(VERIF, 'evidence'), exist_ok=True)
os.makedirs(os.path.join(VERIF, '.cache'), exist_ok=True)
print('setup ok: python %s, numpy %s, pulp %s' % (sys.version.split()[0], numpy.__version__, pulp.__version__))

"""Glue between the abstract spaces and real corankco objects.  Imported only inside workers
(after harness.import_library)."""
from . import spaces
from .harness import HarnessError


def labels_for(name, n):
    labs = spaces.LABEL_SETS[name](n)
    if len(set(str(x) for x in labs)) != len(labs):
        raise HarnessError("label set %s not injective as strings" % name)
    return labs


def expected_type_and_values(labels_used):
    """What a Dataset must turn the labels into: all int when every name is integer-like,
    else all str."""
    def intlike(x):
        return isinstance(x, int) or (isinstance(x, str) and x.isdigit())
    if all(intlike(x) for x in labels_used):
        return int, {x: int(x) for x in labels_used}
    return str, {x: str(x) for x in labels_used}


def raw_ranking(r, labels):
    return [set(labels[x] for x in b) for b in r]


def mk_ranking(r, labels):
    from corankco.ranking import Ranking
    return Ranking(raw_ranking(r, labels))


def mk_dataset(ds, labels, name=None):
    from corankco.dataset import Dataset
    from corankco.ranking import Ranking
    d = Dataset([Ranking(raw_ranking(r, labels)) for r in ds])
    if name is not None:
        d.name = name
    return d


def mk_scheme(s):
    from corankco.scoringscheme import ScoringScheme
    return ScoringScheme([list(s[0]), list(s[1])])


class Back:
    """Maps library elements back to abstract ints (by str(value), which is injective on every
    label set) and checks identity/type preservation."""

    def __init__(self, labels, used=None):
        self.labels = labels
        self.by_str = {str(l): i for i, l in enumerate(labels)}
        used_labels = [labels[i] for i in used] if used is not None else list(labels)
        self.exp_type, _ = expected_type_and_values(used_labels)

    def elem(self, e):
        """abstract int of a library Element, or raises KeyError for an unknown element."""
        return self.by_str[str(e.value)]

    def ranking(self, r):
        """tuple of sorted tuples of abstract ints; no validation beyond mapping."""
        return tuple(tuple(sorted(self.elem(e) for e in b)) for b in r)

    def type_ok(self, e):
        from corankco.element import Element
        if not isinstance(e, Element):
            return False
        if e.type is not self.exp_type:
            return False
        lab = self.labels[self.by_str[str(e.value)]]
        want = int(lab) if self.exp_type is int else str(lab)
        return e.value == want and type(e.value) is self.exp_type


def wellformed(ranking_obj, back, universe):
    """C03 structural oracle on one library Ranking against an abstract universe.  Returns
    None if fine, else a short reason."""
    from corankco.ranking import Ranking
    if not isinstance(ranking_obj, Ranking):
        return 'not a Ranking: %r' % type(ranking_obj)
    seen = set()
    for b in ranking_obj.buckets:
        if not isinstance(b, (set, frozenset)):
            return 'bucket is not a set: %r' % (b,)
        if len(b) == 0:
            return 'empty bucket'
        for e in b:
            try:
                a = back.elem(e)
            except (KeyError, AttributeError):
                return 'foreign element %r' % (e,)
            if not back.type_ok(e):
                return 'element %r has wrong type/value (%r)' % (e, getattr(e, 'type', None))
            if a in seen:
                return 'element %r twice' % (e,)
            seen.add(a)
    if seen != set(universe):
        return 'union %r != universe %r' % (sorted(seen), sorted(universe))
    return None


def scheme_pairs(names):
    return [(n, spaces.SCHQ_BY_NAME[n]) for n in names]

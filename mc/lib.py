"""Glue between the abstract spaces and real corankco objects.  Imported only inside workers
(after harness.import_library)."""
from . import spaces
from .harness import HarnessError


def labels_for(name, n):
    labs = spaces.LABEL_SETS[name](n)
    if len(set(str(x) for x in labs)) != len(labs):
        raise HarnessError("label set %s not injective as strings" % name)
    return labs


def expected_type_and_values(labels_used):
    """What a Dataset must turn the labels into: all int when every name is integer-like,
    else all str."""
    def intlike(x):
        return isinstance(x, int) or (isinstance(x, str) and x.isdigit())
    if all(intlike(x) for x in labels_used):
        return int, {x: int(x) for x in labels_used}
    return str, {x: str(x) for x in labels_used}


def typed_labels(labels, universe):
    """the labels as the library types them for a dataset whose universe is `universe` (abstract ints): all ints
    when every name of that universe is integer-like, else all strings.  `labels` may be a list or a dict; labels of
    elements outside the universe (foreign candidates) follow the same type when they can."""
    items = labels.items() if isinstance(labels, dict) else enumerate(labels)
    items = list(items)
    get = dict(items)
    t, _ = expected_type_and_values([get[x] for x in universe])
    out = {}
    for k, v in items:
        if v is None:
            continue
        if t is int:
            out[k] = int(v) if (isinstance(v, int) or str(v).isdigit()) else 777000 + (k if isinstance(k, int) else 0)
        else:
            out[k] = str(v)
    return out


def raw_ranking(r, labels):
    return [set(labels[x] for x in b) for b in r]


def mk_ranking(r, labels):
    from corankco.ranking import Ranking
    return Ranking(raw_ranking(r, labels))


def mk_dataset(ds, labels, name=None):
    from corankco.dataset import Dataset
    from corankco.ranking import Ranking
    d = Dataset([Ranking(raw_ranking(r, labels)) for r in ds])
    if name is not None:
        d.name = name
    return d


def mk_scheme(s):
    from corankco.scoringscheme import ScoringScheme
    return ScoringScheme([list(s[0]), list(s[1])])


class Back:
    """Maps library elements back to abstract ints (by str(value), which is injective on every
    label set) and checks identity/type preservation."""

    def __init__(self, labels, used=None):
        self.labels = labels
        self.by_str = {str(l): i for i, l in enumerate(labels)}
        for i, l in enumerate(labels):
            # a digit string such as "01" is the int 1 once a dataset has turned all-integer names into ints
            if isinstance(l, str) and l.isdigit() and str(int(l)) not in self.by_str:
                self.by_str[str(int(l))] = i
        used_labels = [labels[i] for i in used] if used is not None else list(labels)
        self.exp_type, _ = expected_type_and_values(used_labels)

    def elem(self, e):
        """abstract int of a library Element, or raises KeyError for an unknown element."""
        return self.by_str[str(e.value)]

    def ranking(self, r):
        """tuple of sorted tuples of abstract ints; no validation beyond mapping."""
        return tuple(tuple(sorted(self.elem(e) for e in b)) for b in r)

    def type_ok(self, e):
        from corankco.element import Element
        if not isinstance(e, Element):
            return False
        if e.type is not self.exp_type:
            return False
        lab = self.labels[self.by_str[str(e.value)]]
        want = int(lab) if self.exp_type is int else str(lab)
        return e.value == want and type(e.value) is self.exp_type


def wellformed(ranking_obj, back, universe):
    """C03 structural oracle on one library Ranking against an abstract universe.  Returns
    None if fine, else a short reason."""
    from corankco.ranking import Ranking
    if not isinstance(ranking_obj, Ranking):
        return 'not a Ranking: %r' % type(ranking_obj)
    seen = set()
    for b in ranking_obj.buckets:
        if not isinstance(b, (set, frozenset)):
            return 'bucket is not a set: %r' % (b,)
        if len(b) == 0:
            return 'empty bucket'
        for e in b:
            try:
                a = back.elem(e)
            except (KeyError, AttributeError):
                return 'foreign element %r' % (e,)
            if not back.type_ok(e):
                return 'element %r has wrong type/value (%r)' % (e, getattr(e, 'type', None))
            if a in seen:
                return 'element %r twice' % (e,)
            seen.add(a)
    if seen != set(universe):
        return 'union %r != universe %r' % (sorted(seen), sorted(universe))
    return None


def scheme_pairs(names):
    return [(n, spaces.SCHQ_BY_NAME[n]) for n in names]


# ----------------------------------------------------------------------------- view oracles (C16)

def ranking_views(r):
    """None if positions / domain / nb_elements / len of a library Ranking agree with its buckets,
    else a reason."""
    from corankco.element import Element
    buckets = r.buckets
    seen = {}
    before = 0
    for b in buckets:
        if not isinstance(b, (set, frozenset)):
            return 'bucket not a set'
        for e in b:
            if not isinstance(e, Element):
                return 'bucket member %r is not an Element' % (e,)
            key = (e.type, e.value)
            if key in seen:
                return 'element %r in two buckets' % (e,)
            seen[key] = before + 1
        before += len(b)
    pos = r.positions
    got = {(e.type, e.value): p for e, p in pos.items()}
    if len(got) != len(pos):
        return 'positions has duplicate keys'
    if got != seen:
        return 'positions %r != expected %r' % (sorted(got.items(), key=repr), sorted(seen.items(), key=repr))
    dom = set((e.type, e.value) for e in r.domain)
    if dom != set(seen):
        return 'domain %r != union of buckets %r' % (sorted(dom, key=repr), sorted(seen, key=repr))
    if r.nb_elements != len(seen):
        return 'nb_elements %r != %d' % (r.nb_elements, len(seen))
    if len(r) != len(buckets) or len(list(iter(r))) != len(buckets):
        return 'len %r != %d' % (len(r), len(buckets))
    return None


def structural_rankings(d):
    return [tuple(frozenset((e.type, e.value) for e in b) for b in r) for r in d.rankings]


def dataset_views(d):
    """None if every dataset-level view agrees with the rankings, else a reason."""
    import numpy as np
    from corankco.element import Element
    rankings = d.rankings
    for i, r in enumerate(rankings):
        bad = ranking_views(r)
        if bad:
            return 'ranking %d: %s' % (i, bad)
    union = set()
    for r in rankings:
        for b in r.buckets:
            for e in b:
                union.add((e.type, e.value))
    uni = d.universe
    if set((e.type, e.value) for e in uni) != union or len(uni) != len(union):
        return 'universe %r != union of domains %r' % (sorted(((e.type, e.value) for e in uni), key=repr), sorted(union, key=repr))
    n = len(union)
    if d.nb_elements != n:
        return 'nb_elements %r != %d' % (d.nb_elements, n)
    if d.nb_rankings != len(rankings):
        return 'nb_rankings %r != %d' % (d.nb_rankings, len(rankings))
    m1 = d.mapping_elem_id
    m2 = d.mapping_id_elem
    if set((e.type, e.value) for e in m1) != union or len(m1) != n:
        return 'mapping_elem_id keys %r != universe %r' % (sorted(((e.type, e.value) for e in m1), key=repr), sorted(union, key=repr))
    if sorted(m1.values()) != list(range(n)):
        return 'mapping_elem_id values %r not 0..%d' % (sorted(m1.values()), n - 1)
    if sorted(m2.keys()) != list(range(n)):
        return 'mapping_id_elem keys %r not exactly 0..%d' % (sorted(m2.keys()), n - 1)
    for e, i in m1.items():
        back = m2[i]
        if not isinstance(back, Element) or (back.type, back.value) != (e.type, e.value):
            return 'mapping_id_elem[%d] = %r is not the inverse of %r' % (i, back, e)
    types = set(t for t, _ in union)
    if len(types) > 1:
        return 'mixed element types %r' % (types,)
    intlike = all(t is int or (isinstance(v, str) and v.isdigit()) for t, v in union)
    if union and ((types == {int}) != intlike):
        return 'element type %r but names integer-like = %r' % (types, intlike)
    for t, v in union:
        if type(v) is not t:
            return 'element value %r not of its declared type %r' % (v, t)
    comp = all(set((e.type, e.value) for e in r.domain) == union for r in rankings)
    if d.is_complete is not comp:
        return 'is_complete %r != %r' % (d.is_complete, comp)
    noties = all(len(b) == 1 for r in rankings for b in r.buckets)
    if d.without_ties is not noties:
        return 'without_ties %r != %r' % (d.without_ties, noties)
    pos = d.get_positions()
    bid = d.get_bucket_ids()
    ep = np.full((n, len(rankings)), -1)
    eb = np.full((n, len(rankings)), -1)
    ids = {(e.type, e.value): i for e, i in m1.items()}
    for j, r in enumerate(rankings):
        before = 0
        for bi, b in enumerate(r.buckets):
            for e in b:
                ep[ids[(e.type, e.value)], j] = before
                eb[ids[(e.type, e.value)], j] = bi
            before += len(b)
    if pos.shape != ep.shape or not np.array_equal(pos, ep):
        return 'get_positions %r != %r' % (pos.tolist(), ep.tolist())
    if bid.shape != eb.shape or not np.array_equal(bid, eb):
        return 'get_bucket_ids %r != %r' % (bid.tolist(), eb.tolist())
    return None


def ds_shards(blocks, per=20, maxk=64, **extra):
    """blocks: list of dicts with n, m (+anything).  One shard dict per stripe."""
    shards = []
    for b in blocks:
        total = spaces.SWO_COUNT[b['n']] ** b['m']
        k = max(1, min(maxk, total // per))
        for s in range(k):
            d = dict(b)
            d.update(extra)
            d.update(shard=s, nshards=k)
            shards.append(d)
    return shards


def ds_expected(blocks):
    return sum(spaces.SWO_COUNT[b['n']] ** b['m'] - 1 for b in blocks)


def tt(x):
    """json lists -> nested tuples (abstract rankings / datasets)."""
    if isinstance(x, (list, tuple)):
        return tuple(tt(v) for v in x)
    return x


def scheme_of(c):
    return (tuple(float(v) for v in c[0]), tuple(float(v) for v in c[1]))


def observe_dataset(d):
    """read every view and derived object once (results discarded) so that whatever the object caches is
    populated before a later mutation."""
    try:
        d.unified_rankings()
        d.unified_dataset()
        d.get_positions()
        d.get_bucket_ids()
        d.universe, d.nb_elements, d.mapping_elem_id, d.mapping_id_elem, d.is_complete, d.without_ties
        str(d), d.description()
        for r in d.rankings:
            r.positions, r.domain, r.nb_elements
    except Exception:
        pass


def mutate_in_place(d, labels, what):
    """what: an abstract element (removed with remove_elements) or 'empties' (remove_empty_rankings)."""
    if what == 'empties':
        d.remove_empty_rankings()
    else:
        victim = [e for r in d.rankings for b in r.buckets for e in b if str(e.value) == str(labels[what])]
        d.remove_elements({victim[0]})


def mutation_histories(ds0):
    """(what, abstract dataset after) for every in-place mutation of ds0 that leaves a dataset: removal of one element
    of a universe of >= 2 elements, and remove_empty_rankings when ds0 has an empty ranking."""
    from . import refmodel
    out = []
    if any(len(r) == 0 for r in ds0):
        out.append(('empties', tuple(r for r in ds0 if len(r) > 0)))
    uni = spaces.universe_of(ds0)
    if len(uni) >= 2:
        for x in uni:
            after = refmodel.remove_elements(ds0, {x})
            if len(after) > 0:
                out.append((x, after))
    return out


def prepare_mutated(ds0, labels, what, warm=None):
    """the REAL object built from ds0, optionally used once (warm(d)), looked at, then mutated in place."""
    d = mk_dataset(ds0, labels)
    if warm is not None:
        try:
            warm(d)
        except Exception:
            pass
    observe_dataset(d)
    mutate_in_place(d, labels, what)
    return d


def consensus_snapshot(c):
    """content of a Consensus that must never change once it was returned."""
    try:
        rk = tuple(tuple(frozenset((e.type, e.value) for e in b) for b in r) for r in c.consensus_rankings)
        feats = tuple(sorted((str(k), repr(v)) for k, v in c.features.items()))
        return (rk, feats)
    except Exception as e:      # unreadable now: also a change
        return ('unreadable', repr(e))


class EarlierResults:
    """remembers the last result handed out per key and verifies, after the next call, that it was not changed."""

    def __init__(self):
        self.last = {}

    def check_and_remember(self, ctx, key, consensus, case):
        old = self.last.get(key)
        if old is not None:
            now = consensus_snapshot(old[0])
            if now != old[1]:
                ctx.violation('earlier-result-changed-by-a-later-call', dict(case, earlier_case=old[2]), repr(now)[:300],
                              repr(old[1])[:300])
        if consensus is not None:
            # snapshot AFTER the score was read by the caller, so that the lazy score write is not counted as a change
            self.last[key] = (consensus, consensus_snapshot(consensus), {k: case[k] for k in case if k in ('dataset', 'scheme', 'one')})

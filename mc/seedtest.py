#!/venv/bin/python
"""Developer tool (not a registered check): confirm a seeded defect and run checks against it.

  mc/seedtest.py --src /tmp/wt_C01/_seed/1 --id C01-a --prop C01 [--checks C01,C02] [--seeds 0,1,2] [--tier quick]

1. scratch copy of /repo (outside /repo and /verif), patch applied with `git apply`-compatible `patch -p1`;
2. the repository's own test suite must still pass on the copy;
3. demo.py must FAIL with the patch and PASS on the unpatched tree;
4. every listed check is run against the copy (quick tier, each seed); exit status and VIOLATION lines recorded;
5. on success the seed is stored as /verif/seeded/<id>/ (patch.diff, demo.py, notes.md, meta.json); scratch copy removed.
"""
import argparse
import json
import os
import shutil
import subprocess
import sys
import tempfile
import time

VERIF = os.path.dirname(os.path.dirname(os.path.abspath(__file__)))
PY = '/venv/bin/python'


def sh(cmd, cwd=None, env=None, timeout=3600):
    r = subprocess.run(cmd, cwd=cwd, env=env, capture_output=True, text=True, timeout=timeout)
    return r.returncode, r.stdout, r.stderr


def main():
    ap = argparse.ArgumentParser()
    ap.add_argument('--src', required=True)
    ap.add_argument('--id', required=True)
    ap.add_argument('--prop', required=True)
    ap.add_argument('--checks')
    ap.add_argument('--seeds', default='0,1,2')
    ap.add_argument('--tier', default='quick')
    ap.add_argument('--needs', default='')
    ap.add_argument('--skip-confirm', action='store_true')
    a = ap.parse_args()
    checks = (a.checks or a.prop).split(',')
    seeds = [int(x) for x in a.seeds.split(',')]
    patch = os.path.join(a.src, 'patch.diff')
    demo = os.path.join(a.src, 'demo.py')
    tmp = tempfile.mkdtemp(prefix='mcseed_', dir='/tmp')
    meta = {'id': a.id, 'breaks_property': a.prop, 'needs_to_manifest': a.needs, 'ran': [], 'at': time.strftime('%Y-%m-%d %H:%M')}
    ok = True
    try:
        clean = os.path.join(tmp, 'clean')
        mut = os.path.join(tmp, 'mut')
        ign = shutil.ignore_patterns('.git', '__pycache__', '*.egg-info', 'docs', '_seed')
        shutil.copytree('/repo', clean, ignore=ign)
        shutil.copytree('/repo', mut, ignore=ign)
        rc, out, err = sh(['patch', '-p1', '--no-backup-if-mismatch', '-d', mut, '-i', os.path.abspath(patch)])
        if rc != 0:
            print('patch does not apply:', out, err)
            return 3
        env_m = dict(os.environ, PYTHONPATH=mut, NUMBA_CACHE_DIR=os.path.join(tmp, 'ncm'), PYTHONDONTWRITEBYTECODE='1')
        env_c = dict(os.environ, PYTHONPATH=clean, NUMBA_CACHE_DIR=os.path.join(tmp, 'ncc'), PYTHONDONTWRITEBYTECODE='1')
        for e in (env_m, env_c):
            e.pop('MC_PINNED', None)
        if not a.skip_confirm:
            rc, out, err = sh([PY, '-m', 'pytest', '-q', '-p', 'no:cacheprovider', '--timeout=900', 'tests'], cwd=mut, env=env_m)
            last = (out.strip().splitlines() or ['?'])[-1]
            meta['ran'].append({'cmd': 'repo test suite on patched copy', 'result': last})
            print('tests on patched copy:', last)
            if rc != 0 or '52 passed' not in last:
                ok = False
            rc_m, out, err = sh([PY, os.path.abspath(demo)], cwd=tmp, env=env_m, timeout=1200)
            rc_c, out2, err2 = sh([PY, os.path.abspath(demo)], cwd=tmp, env=env_c, timeout=1200)
            meta['ran'].append({'cmd': 'demo.py with patch', 'exit': rc_m})
            meta['ran'].append({'cmd': 'demo.py without patch', 'exit': rc_c})
            print('demo with patch exit=%d, without exit=%d' % (rc_m, rc_c))
            if rc_m == 0 or rc_c != 0:
                ok = False
                print((err or out)[-800:], (err2 or out2)[-800:])
        detected = {}
        for chk in checks:
            for seed in seeds:
                env = dict(env_m, VERIF_SEED=str(seed))
                t0 = time.time()
                rc, out, err = sh([PY, os.path.join(VERIF, 'mc', 'run.py'), chk, '--repo', mut, '--tier', a.tier, '--no-evidence'],
                                  env=env, timeout=7200)
                viol = [l for l in out.splitlines() if l.startswith('VIOLATION')]
                sigs = [l.strip() for l in out.splitlines() if 'violation signature' in l]
                detected.setdefault(chk, []).append(rc == 1 and bool(viol))
                meta['ran'].append({'cmd': 'mc/run.py %s --tier %s (VERIF_SEED=%d) on patched copy' % (chk, a.tier, seed),
                                    'exit': rc, 'violation_lines': len(viol), 'signatures': sigs[:4], 'wall_s': round(time.time() - t0)})
                print('%s seed=%d exit=%d violations=%d %s' % (chk, seed, rc, len(viol), '; '.join(sigs[:2])[:200]))
                if rc == 2:
                    print(err[-1500:])
        prev_path = os.path.join(VERIF, 'seeded', a.id, 'meta.json')
        if a.skip_confirm and os.path.exists(prev_path):
            # refresh of an already confirmed seed: keep its description and its confirmation record
            prev = json.load(open(prev_path))
            for k in ('what', 'needs_to_manifest', 'strengthened', 'wave', 'written_by', 'detected_by_thorough'):
                if k in prev:
                    meta[k] = prev[k]
            meta['ran'] = [r for r in prev.get('ran', []) if not r['cmd'].startswith('mc/run.py')] + meta['ran']
            ok = prev.get('confirmed', ok)
        meta['detected_by'] = sorted(k for k, v in detected.items() if v and all(v))
        meta['missed_by'] = sorted(k for k, v in detected.items() if not (v and all(v)))
        meta['confirmed'] = ok
        if ok:
            dst = os.path.join(VERIF, 'seeded', a.id)
            os.makedirs(dst, exist_ok=True)
            shutil.copy(patch, os.path.join(dst, 'patch.diff'))
            shutil.copy(demo, os.path.join(dst, 'demo.py'))
            if os.path.exists(os.path.join(a.src, 'notes.md')):
                shutil.copy(os.path.join(a.src, 'notes.md'), os.path.join(dst, 'notes.md'))
            with open(os.path.join(dst, 'meta.json'), 'w') as f:
                json.dump(meta, f, indent=1)
            print('stored', dst, 'detected_by', meta['detected_by'], 'missed_by', meta['missed_by'])
        else:
            print('NOT confirmed; nothing stored')
    finally:
        shutil.rmtree(tmp, ignore_errors=True)
    return 0 if ok else 4


if __name__ == '__main__':
    sys.exit(main())

#!/venv/bin/python
"""Rewrites the block between <!-- SEEDED-TABLE-BEGIN --> and <!-- SEEDED-TABLE-END --> of DESIGN.md from
seeded/*/meta.json (fields: id, breaks_property, what, needs_to_manifest, detected_by, missed_by, strengthened)."""
import glob, json, os, re
V = os.path.dirname(os.path.dirname(os.path.abspath(__file__)))
rows = []
for d in sorted(glob.glob(os.path.join(V, 'seeded', '*'))):
    mp = os.path.join(d, 'meta.json')
    if not os.path.exists(mp):
        continue
    m = json.load(open(mp))
    rows.append(m)
out = ['| seed | what was changed | needs | caught by (quick tier) | note |', '|---|---|---|---|---|']
for m in rows:
    caught = ', '.join(m.get('detected_by') or []) or '**missed**'
    out.append('| %s | %s | %s | %s | %s |' % (m['id'], m.get('what', ''), m.get('needs_to_manifest', ''), caught, m.get('strengthened', '')))
n = len(rows)
k = sum(1 for m in rows if m.get('detected_by'))
out.append('')
out.append('%d confirmed seeded changes, %d caught by the quick tier of at least one check, %d missed.' % (n, k, n - k))
p = os.path.join(V, 'DESIGN.md')
s = open(p).read()
block = '<!-- SEEDED-TABLE-BEGIN -->\n' + '\n'.join(out) + '\n<!-- SEEDED-TABLE-END -->'
if '<!-- SEEDED-TABLE-BEGIN -->' in s:
    s = re.sub(r'<!-- SEEDED-TABLE-BEGIN -->.*?<!-- SEEDED-TABLE-END -->', lambda _: block, s, flags=re.S)
else:
    s += '\n### 8.5 Seeded changes and the checks that catch them\n\n' + block + '\n'
open(p, 'w').write(s)
print('table with %d rows' % n)

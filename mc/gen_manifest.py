#!/venv/bin/python
"""Regenerates /verif/MANIFEST.json from the table below (kept in one place so that the
manifest always validates).  Run:  /venv/bin/python mc/gen_manifest.py && python3-vt mc/validate.py"""
import json
import os

VERIF = os.path.dirname(os.path.dirname(os.path.abspath(__file__)))
PY = '/venv/bin/python'

# id -> (design section, technique, level text, level note)
CHECKS = {
    'C01': ('3/C01, 8.2b', 'bounded-exhaustive enumeration of datasets x candidates x schemes against a pair-by-pair reference score; plus histories (one scoring factory reused across in-place mutations of the dataset object)',
            'Every dataset of DS(3,2), DS(2,3), DS(4,1), DS(1,4) x every complete / superset / incomplete candidate x 19 schemes (positional base-64 scheme: one equality decides all eight observable pair counters), all 96 schemes over {0,1} on DS(3,1), DS(2,2); for every dataset of DS(3,2) and every in-place mutation (remove one element, remove empty rankings) the same factory scores every candidate against the same mutated object. Exhaustive within the bound, nothing sampled.',
            'small-scope hypothesis (n<=5, m<=5); dyadic penalties so float sums are exact; reference model trusted after its internal identities'),
    'C02': ('3/C02, 8.2b', 'bounded-exhaustive enumeration of datasets x schemes; table compared entry-wise with a reference built from three 2-element reference scores per pair; all complete candidates summed; every ordered pair of schemes requested one after the other (module-state histories)',
            'Every dataset of DS(3,2), DS(2,3), DS(4,1) under 19 schemes (+ 96 schemes over {0,1} on the tiny blocks, DS(4,2) on two): both matrix views, the cost table from both, mirror identities, every complete candidate against the definition and the library score, and the table for s2 right after the table for s1 for every ordered pair of schemes.',
            'small-scope hypothesis; unit ranking weights; dyadic penalties'),
    'C03': ('3/C03, 8.2b', 'bounded-exhaustive enumeration of datasets x schemes x every algorithm configuration x both flags x all schedules (pivot draws, optimal vertices) in three process modes (CPLEX absent/real CBC, CPLEX absent/enumerating solver, cplex stand-in); structural oracle; histories on the algorithm object (reuse, reversed twin, other labels) and on the dataset object (looked at, mutated in place, reused)',
            'Every dataset of DS(3,2), DS(2,3), DS(1,2) under int / reverse-int / letter / digit-string / int-str-mix labels, DS(4,2) for the in-process configurations, and the DS(3,3)+x sub-space (a non-tieable component next to another component) under mixed labels: at least one ranking, exactly one when asked, non-empty disjoint buckets whose union is the universe with types preserved, Ranking views consistent, reading the consensus (score, description, every top-k) changes neither it nor the dataset; refusals must be documented and justified; any other exception or a run that never returns is a violation.',
            'the cplex stand-in (exhaustive 0/1 enumerator behind the CPLEX API subset used) replaces the absent solver; CBC is trusted on <=30-variable models'),
    'C04': ('3/C04, 8.2b', 'same enumeration as C03 with a score oracle (fresh and reused algorithm objects, run-mutate-run histories), plus the BioConsert kernel explored from every start state of WO(k) for every distinct cost matrix',
            'For every execution that yields a consensus the score feature is read before the lazy path runs (must be the -1 sentinel or already truthful) and kemeny_score must be a non-negative number within 1e-6 of the reference score of EVERY returned ranking; schemes include the positional base-64 scheme (scores ~1e13) and two schemes scaled by 2^-11; earlier results are re-read after later calls; the local-search bookkeeping is checked at its source from all start states.',
            'dyadic penalties; stand-ins as in C03'),
    'C05': ('3/C05, 8.2b', 'bounded-exhaustive enumeration of datasets x schemes x exact configurations x both flags x EVERY optimal vertex the solver may return, against a brute-force optimum over all rankings with ties; solver replaced by an exhaustive 0/1 enumerator (cplex stand-in, PuLP stand-in) and by real CBC',
            'DS(3,2) x 19 schemes, DS(2,3), DS(4,2), the non-tieable cores of DS(3,3) under three schemes incl. p=0.375, the DS(3,3)+x sub-space, premutated inputs: result score == brute-force optimum; non-optimised CPLEX model with all rankings requested returns exactly the set of minimisers; feasible set of the unpruned ILP in bijection with WO(U) with objective == score at every point; the selector takes CPLEX when present and falls back to the free solver (real CBC) when absent. Thorough: DS(4,2) and DS(3,3) under all schemes, DS(5,2) with the stand-in, structured families at n=6..8 (real CBC) against a subset-DP oracle.',
            'real CPLEX never run (stand-in returns exactly the optimal points); CBC trusted on <=30-variable models and cross-checked by the enumerator; schemes with unit penalties below 1e-3 are not fed to the CPLEX-model path (its pruning tolerance is absolute, DESIGN 8.6)'),
    'C06': ('3/C06, 8.2b', 'bounded-exhaustive enumeration of datasets x schemes x ParCons configurations (bounds 80/0/1/2/3, auxiliaries, all pivot schedules, three solver modes) against the set of ALL brute-force minimisers; structured sub-spaces for multi-component shapes',
            'parcons_partition is a partition and some minimiser respects it; the ParCons consensus respects it and reports it as weak partitioning; necessarily_optimal implies optimal for EVERY configuration; the ParCons flag equals "no component larger than the bound that cannot be all-tied at minimal cost". DS(3,2), DS(3,3), DS(4,2) (partition), DS(3,3)+x, a two-block family of 7 elements (delegated 4-cycle next to an exactly solved 3-cycle, DP optimum), premutated inputs.',
            'stand-ins as in C05'),
    'C07': ('3/C07, 8.2b', 'bounded-exhaustive enumeration of datasets x schemes against the set of ALL brute-force minimisers; partition histories on a mutated dataset object; exhaustive enumeration of all (ordered partition, consensus) pairs for the consistency test',
            'DS(3,2) x 19 schemes, DS(3,3) x 9, DS(4,2) x 3: ParFront is a partition, a merge of consecutive ParCons groups, and every minimiser respects it; the same after partition -> in-place mutation -> partition on one dataset object; consistent_with compared with its definition on all pairs of WO(U) x (WO(U) + rankings over sub/super/other sets), n<=4, with and without an associated dataset, under a watchdog.',
            'malformed partitions / consensuses not covering their dataset are outside the property'),
    'C08': ('3/C08, 8.2b', 'explicit-state exploration of the local search: every start state of WO(k) x every distinct cost matrix of the block through the real sweep and one real micro-step per (state, element); plus enumeration of all single-element moves of every ranking returned by the public API (fresh / reused / premutated inputs)',
            'Local optimality is decided on all moves of all returned rankings for 9 BioConsert configurations (schemes incl. B[1]=1024 and 2^-11 scalings), and inductively at kernel level: from every state the micro step takes a legal improving move with an exact claimed delta or, if it takes none, no move of that element improves by more than the 0.001 threshold; the sweep ends in a local optimum with exact accumulated delta.',
            'private jitted kernels named in the anchors are driven directly (degrades to the API level if renamed); a non-terminating kernel is reported through the parent-side hang detector'),
    'C09': ('3/C09, 8.2b', 'bounded-exhaustive enumeration of datasets x schemes x 9 BioConsert configurations x both flags x all pivot schedules; starters re-run alone under the same schedule; reused objects, reversed twins, premutated inputs',
            'Result score <= every unified input ranking and the all-tied ranking (no starters), <= the own consensus of each starting algorithm re-run alone under the same pivot schedule, all returned rankings share one score, default BioConsert <= PickAPerm; DS(4,2) is in the quick tier because the id-order defect needs four elements; 2^-11-scaled schemes expose any rounding of scores.',
            'small-scope hypothesis'),
    'C10': ('3/C10, 8.2b', 'bounded-exhaustive enumeration of datasets x schemes x both flags against a reference scan of the unified input rankings; fresh and long-lived algorithm objects; run-mutate-run histories',
            'DS(3,2), DS(2,3) (22 schemes) and DS(4,2), DS(3,3) (5 schemes): returned rankings must be unified input rankings of minimal reference score, exactly the set of distinct minima when all are requested, and incomplete data with a scheme that is not an exact positive multiple of the unifying scheme must be refused.',
            'small-scope hypothesis; a refusal may be any deliberate exception'),
    'C11': ('3/C11, 8.2b', 'stateless exhaustive exploration of the whole pivot-choice tree (choice controller owns random.choice) for every dataset x scheme, compared with a reference KwikSort fed the recorded pivots; histories on a mutated dataset object',
            'For every dataset of DS(3,2), DS(4,1), DS(2,3) x 19 schemes and DS(4,2), DS(3,3) x 3 schemes ALL pivot schedules are executed (about 9e5 executions): each result equals the reference simulation under the same pivots, and when the cheapest-placement relation is an antisymmetric weak order every schedule returns it.',
            'pivot draws reach the library only via the random module (other sources raise); n<=4 (thorough 5)'),
    'C12': ('3/C12, 8.2b', 'bounded-exhaustive enumeration of datasets x 27 schemes x both variants x both flags against a reference Borda in exact rationals; scheme sequences and run-mutate-run histories on long-lived objects; thorough: profile family with 15 rankings',
            'Every dataset of the quick blocks under the four accepted families and their multiples {1,2,3,.5} plus 11 foreign schemes: groups in increasing exact mean, tied iff equal; incomplete data with a foreign scheme must raise ScoringSchemeNotHandledException; one long-lived object per variant is asked a fixed scheme sequence on every dataset. Thorough adds all 15-ranking datasets over 3 elements made of <= 3 ranking types (denominators up to 15).',
            'small-scope hypothesis; quick tier decides tie detection for denominators <= 4'),
    'C13': ('3/C13, 8.2b', 'bounded-exhaustive enumeration of datasets x 19 schemes against victories/equalities/defeats recomputed from the reference cost table; fresh and long-lived objects; run-mutate-run histories',
            'DS(3,2), DS(2,3), DS(4,1) x 19 schemes (incl. the positional scheme whose penalties span 12 orders of magnitude) and DS(4,2) x 4: ranking by decreasing reference Copeland score, feature dictionaries keyed by exactly the universe with the reference numbers, counts sum to n-1 and scores to n(n-1)/2.',
            'small-scope hypothesis; dyadic penalties so cost comparisons are exact'),
    'C14': ('3/C14, 8.2b', 'exhaustive enumeration of configurations (incl. 10 nested ones) x all 96 schemes over {0,1} + preset multiples for the predicate; datasets x 12 schemes x configurations for the behaviour (fresh and reused objects)',
            'The predicate must answer a bool for every configuration and scheme in all three process modes; declared relevant implies a well-formed consensus on every incomplete dataset of the block, complete datasets are never refused, and Borda / PickAPerm / BioConsert started from them (also behind an exact or ParCons starter) refuse exactly when they declared the scheme not relevant.',
            'one ranking requested (avoids the documented optimize/all-rankings incompatibility)'),
    'C15': ('3/C15', 'explicit-state exploration of a transition system whose state is the complete __dict__ snapshot of (dataset, scheme): every event (about 80: all algorithm configurations x flags, score/description reads, partitions, views, write, scheme operations) from every start state under every schedule, plus all ordered pairs of events on shared objects vs fresh copies',
            'Every event is shown to be a self-loop on the complete snapshot from every dataset of DS(3,2) (three schemes incl. an asymmetric one), DS(2,3) and the non-tieable cores of DS(3,3), under three label presentations (so, by induction, any call sequence leaves the inputs unchanged), every event run twice gives equal results (KwikSort: under the same schedule), and all ordered pairs of events on shared objects give the same second result as on fresh copies.',
            'snapshot compares content (not object identity); events that raise must still leave inputs untouched'),
    'C16': ('3/C16, 8.2b', 'explicit-state BFS to closure over the real Dataset mutators (histories replayed on fresh objects, canonical-state dedup) with a list-of-sets reference and view invariants in every state; every transition also on an object whose views were all read before each mutation',
            'From every dataset of DS(3,2) and DS(2,3) under five label sets (incl. int/str mixes whose homogenisation flips after a removal) the search applies every remove_elements(S), six presence-rate thresholds and remove_empty_rankings until no new state appears; in every state all Ranking/Dataset views, the id maps in both directions, the matrices, unification, both projection routes for every kept set (also kept sets chosen before a removal) and a Consensus built from the rankings are checked against the reference.',
            'small-scope hypothesis; removal of non-members not in the alphabet'),
    'C17': ('3/C17, 8.2b', 'exhaustive enumeration of pairs of datasets over hash-colliding universes in every bucket insertion order, against a structural multiset oracle; equality histories (compare, mutate in place, compare)',
            'All datasets with <=3 elements and <=2 rankings (thorough: 3 rankings / 4 elements), each bucket presented in every insertion order, over four label sets (ints colliding in set tables, strings colliding modulo 32 under the run hash seed, letters, ints whose full hashes are equal), compared pairwise (re-presentations, permutations, near misses, full cross products); ==, symmetry, != and agreement with Ranking.__eq__ matching on every pair; a compared dataset is mutated in place and compared again.',
            'CPython set iteration order for colliding keys is insertion order (guarded by a counter of equal datasets that print differently)'),
    'C18': ('3/C18', 'exhaustive enumeration of all strings over the format alphabet up to length 6 (thorough 7/8) and of all rankings/datasets of the small scope through write/parse',
            'Every string over the 9-character format alphabet up to length 6 goes through the three parser entry points (ValueError or a result, watchdog for hangs); every ranking of SWO(4) in 30 textual renderings and every dataset of DS(3,2) through a fresh file (every other file re-uses the previous, deleted, path) must come back equal and structurally identical.',
            'element alphabet as in the statement: non-negative ints; delimiter-free non-int-like strings'),
    'C19': ('3/C19, 8.2b', 'exhaustive enumeration of all 12-tuples over small value grids, all ordered pairs of the 2916 valid schemes over {0,1,2} in both query orders, all scalings; exact rational oracle',
            'All 3^12 tuples over {0,1,2} and {-1,0,1} as ints and floats plus malformed shapes decide the validation clause with the documented exception precedence; all 8.5M ordered pairs decide both equivalence tests (general-first and complete-only-first on fresh objects) and the nickname; scaling and score homogeneity are enumerated over all valid schemes / DS(3,2) x all candidates.',
            'penalty grid {0,.5,1,2,3}; bool/nan/inf entries not judged'),
    'C20': ('3/C20, 8.2b', 'explicit-state BFS to closure over the real Markov step functions with the chooser answering every random draw; exhaustive enumeration of all random walks / shuffle outcomes of the public generators on a bounded grid; histories of generator calls',
            'The Markov chain is explored as a transition system for n<=6 (thorough 7) in both modes: all 9366/4683 reachable states at n=6, every (element, move) transition, dense-bucket invariant in every state, every reachable state converted to buckets through generate_rankings; the public generators under every random walk for (n<=3,m<=2,steps<=2), (n<=2,steps<=4) etc., every shuffle outcome, and every ordered pair of sizes / modes requested one after the other in one process.',
            'random draws reach the library only through the random module (routed to the chooser; anything else raises); n=0/m=0 not claimed'),
}

PENDING = {}


def entry(pid):
    sec, tech, text, note = CHECKS[pid]
    return {
        'property_id': pid,
        'quick_cmd': '%s mc/run.py %s --tier quick' % (PY, pid),
        'thorough_cmd': '%s mc/run.py %s --tier thorough' % (PY, pid),
        'evidence_file': '/verif/evidence/%s.json' % pid,
        'replay_cmd_template': '%s mc/run.py %s --replay {path}' % (PY, pid),
        'engine': 'mc',
        'level_claimed': {'category': 'model_checking', 'text': text, 'design_ref': 'DESIGN.md §' + sec},
        'level_note': note,
        'technique': tech,
    }


def main():
    props = [json.loads(l)['id'] for l in open(os.path.join(VERIF, 'properties.jsonl'))]
    man = {
        'version': 1,
        'setup_cmd': '%s mc/setup.py' % PY,
        'hooks': {
            'guard': 'CORANKCO_VERIF',
            'enable': 'no source hooks: before corankco is imported the harness replaces the functions of the `random` '
                      'module by choice-controller dispatchers, installs (in the "stub" process mode) a cplex stand-in in '
                      'sys.modules, and rebinds pulp.PULP_CBC_CMD to an enumerating solver in two of the three modes; '
                      'CORANKCO_VERIF=1 is exported by the runner but nothing in /repo reads it',
            'baseline_off_cmd': 'cd /repo && /venv/bin/python -m pytest -ra -q -p no:cacheprovider --timeout=900 '
                                '--continue-on-collection-errors',
            'source_commits': [],
            'add_only': True,
        },
        'engines': [{'name': 'mc', 'path': '/verif/mc', 'serves_properties': sorted(CHECKS),
                     'kind_free_text': 'hand-written explicit-state / bounded-exhaustive explorer driving the real '
                                       'library (Python), reference oracles, choice controller for all randomness, '
                                       'exhaustive 0/1 enumerator standing in for CPLEX'}],
        'checks': [entry(p) for p in props if p in CHECKS],
        'not_applicable': [{'property_id': p, 'reason': PENDING.get(p, 'check not built yet in this round (planned, see DESIGN.md §3); model checking applies')}
                           for p in props if p not in CHECKS],
        'notes': 'All checks are exhaustive within stated bounds; see DESIGN.md. Exit 2 = harness error.',
    }
    with open(os.path.join(VERIF, 'MANIFEST.json'), 'w') as f:
        json.dump(man, f, indent=1)
    print('MANIFEST.json: %d checks, %d not claimed' % (len(man['checks']), len(man['not_applicable'])))


if __name__ == '__main__':
    main()

#!/venv/bin/python
"""Regenerates /verif/MANIFEST.json from the table below (kept in one place so that the
manifest always validates).  Run:  /venv/bin/python mc/gen_manifest.py && python3-vt mc/validate.py"""
import json
import os

VERIF = os.path.dirname(os.path.dirname(os.path.abspath(__file__)))
PY = '/venv/bin/python'

# id -> (design section, technique, level text, level note)
CHECKS = {
    'C01': ('3/C01', 'bounded-exhaustive enumeration of datasets x candidates x schemes against a pair-by-pair reference score',
            'Every dataset with <=4 elements/<=2 rankings (quick: DS(3,2), DS(2,3), DS(4,1)) and every complete or incomplete candidate is scored by the real library and compared with the literal definition; the positional base-64 scheme makes one equality decide all eight observable pair counters. Exhaustive within the bound, nothing sampled.',
            'small-scope hypothesis (n<=5, m<=5); dyadic penalties so float sums are exact; reference model trusted after its internal identities'),
    'C02': ('3/C02', 'bounded-exhaustive enumeration of datasets x schemes; table compared entry-wise with a reference built from three 2-element reference scores per pair; all complete candidates summed',
            'Every dataset of DS(3,2), DS(2,3), DS(4,1) (quick; DS(4,2), DS(3,3), DS(5,1) thorough) under 16 schemes: both matrix views, the cost table from both, mirror identities, and for every complete candidate the selected entries against the definition and against the library score.',
            'small-scope hypothesis; unit ranking weights; dyadic penalties'),
    'C19': ('3/C19', 'exhaustive enumeration of all 12-tuples over small value grids, all ordered pairs of the 2916 valid schemes over {0,1,2}, all scalings; exact rational oracle',
            'All 3^12 tuples over {0,1,2} and {-1,0,1} as ints and floats plus malformed shapes decide the validation clause with the documented exception precedence; all 8.5M ordered pairs decide both equivalence tests and the nickname; scaling and score homogeneity are enumerated over all valid schemes / DS(3,2) x all candidates.',
            'penalty grid {0,.5,1,2,3}; bool/nan/inf entries not judged'),
    'C17': ('3/C17', 'exhaustive enumeration of pairs of datasets over hash-colliding universes in every bucket insertion order, against a structural multiset oracle',
            'All datasets with <=3 elements and <=2 rankings (thorough: 3 rankings / 4 elements), each bucket presented in every insertion order over labels that collide in set tables, compared pairwise (re-presentations, permutations, near misses, full cross products); ==, symmetry, != and agreement with Ranking.__eq__ matching are decided on every pair.',
            'CPython set iteration order for colliding keys is insertion order (guarded by a counter of equal datasets that print differently)'),
    'C18': ('3/C18', 'exhaustive enumeration of all strings over the format alphabet up to length 6 (thorough 7/8) and of all rankings/datasets of the small scope through write/parse',
            'Every string over the 9-character format alphabet up to length 6 goes through the three parser entry points (ValueError or a result, watchdog for hangs); every ranking of SWO(4) in 30 textual renderings and every dataset of DS(3,2) through a fresh file must come back equal and structurally identical.',
            'element alphabet as in the statement: non-negative ints; delimiter-free non-int-like strings'),
    'C16': ('3/C16', 'explicit-state BFS to closure over the real Dataset mutators (histories replayed on fresh objects, canonical-state dedup) with a list-of-sets reference and view invariants in every state',
            'From every dataset of DS(3,2) and DS(2,3) under five label sets (incl. int/str mixes whose homogenisation flips after a removal) the search applies every remove_elements(S), six presence-rate thresholds and remove_empty_rankings until no new state appears; in every state all Ranking/Dataset views, the id maps in both directions, the matrices, unification and both projection routes for every kept set are compared with the reference.',
            'small-scope hypothesis; removal of non-members not in the alphabet'),
    'C20': ('3/C20', 'explicit-state BFS to closure over the real Markov step functions with the chooser answering every random draw; exhaustive enumeration of all random walks / shuffle outcomes of the public generators on a bounded grid',
            'The Markov chain is explored as a transition system for n<=6 (thorough 7) in both modes: all 9366/4683 reachable states at n=6, every (element, move) transition, dense-bucket invariant in every state, and every reachable state converted to buckets through generate_rankings; the public generators are run under every random walk for (n<=3,m<=2,steps<=2), (n<=2,steps<=4) etc. and every shuffle outcome.',
            'random draws reach the library only through the random module (routed to the chooser; anything else raises); n=0/m=0 not claimed'),
    'C10': ('3/C10', 'bounded-exhaustive enumeration of datasets x schemes x both flags against a reference scan of the unified input rankings',
            'Every dataset of DS(3,2), DS(2,3) (19 schemes) and DS(4,2), DS(3,3) (5 schemes): returned rankings must be unified input rankings of minimal reference score, exactly the set of distinct minima when all are requested, and incomplete data with a scheme that is not an exact positive multiple of the unifying scheme must be refused.',
            'small-scope hypothesis; a refusal may be any deliberate exception'),
    'C11': ('3/C11', 'stateless exhaustive exploration of the whole pivot-choice tree (choice controller owns random.choice) for every dataset x scheme, compared with a reference KwikSort fed the recorded pivots',
            'For every dataset of DS(3,2), DS(4,1), DS(2,3) x 16 schemes and DS(4,2), DS(3,3) x 3 schemes ALL pivot schedules are executed (about 9e5 executions): each result equals the reference simulation under the same pivots, and when the cheapest-placement relation is an antisymmetric weak order every schedule returns it.',
            'pivot draws reach the library only via random.choice (other sources raise); n<=4 (thorough 5)'),
    'C12': ('3/C12', 'bounded-exhaustive enumeration of datasets x 27 schemes x both variants x both flags against a reference Borda in exact rationals',
            'Every dataset of the quick blocks under the four accepted families and their multiples {1,2,3,.5} plus 11 foreign schemes (including one with the B vector of the unifying scheme and another T): groups in increasing exact mean, tied iff equal; incomplete data with a foreign scheme must raise ScoringSchemeNotHandledException.',
            'small-scope hypothesis'),
    'C13': ('3/C13', 'bounded-exhaustive enumeration of datasets x 16 schemes against victories/equalities/defeats recomputed from the reference cost table',
            'Every dataset of DS(3,2), DS(2,3), DS(4,1) x 16 schemes and DS(4,2) x 4 schemes: ranking by decreasing reference Copeland score, feature dictionaries keyed by exactly the universe with the reference numbers, counts sum to n-1 and scores to n(n-1)/2.',
            'small-scope hypothesis; dyadic penalties so cost comparisons are exact'),
    'C03': ('3/C03', 'bounded-exhaustive enumeration of datasets x schemes x every algorithm configuration x both flags x all schedules (pivot draws, optimal vertices) in three process modes (CPLEX absent/real CBC, CPLEX absent/enumerating solver, cplex stand-in), structural oracle',
            'Every dataset of DS(3,2), DS(2,3), DS(1,2) under several label presentations and DS(4,2) for the in-process configurations: at least one ranking, exactly one when asked, non-empty disjoint buckets whose union is the universe with types preserved; refusals must be documented and justified; any other exception, or a run that never returns (parent-side hang detection), is a violation.',
            'the cplex stand-in (exhaustive 0/1 enumerator behind the CPLEX API subset used) replaces the absent solver; CBC is trusted on <=30-variable models'),
    'C04': ('3/C04', 'same enumeration as C03 with a score oracle, plus the BioConsert kernel explored from every start state of WO(k) for every distinct cost matrix',
            'For every execution that yields a consensus the score feature is read before the lazy path runs (must be the -1 sentinel or already truthful) and kemeny_score must be a non-negative number within 1e-6 of the reference score of EVERY returned ranking; the local-search bookkeeping is checked at its source from all start states.',
            'dyadic penalties; stand-ins as in C03'),
    'C08': ('3/C08', 'explicit-state exploration of the local search: every start state of WO(k) x every distinct cost matrix of the block through the real sweep and one real micro-step per (state, element); plus enumeration of all single-element moves of every ranking returned by the public API',
            'Local optimality is decided on all moves of all returned rankings for 9 BioConsert configurations, and inductively at kernel level: from every state the micro step takes a legal improving move with an exact claimed delta or, if it takes none, no move of that element improves by more than the 0.001 threshold; the sweep ends in a local optimum with exact accumulated delta.',
            'private jitted kernels named in the anchors are driven directly (degrades to the API level if renamed); a non-terminating kernel is reported through the parent-side hang detector'),
    'C09': ('3/C09', 'bounded-exhaustive enumeration of datasets x schemes x 9 BioConsert configurations x both flags x all pivot schedules; starters re-run alone under the same schedule',
            'Result score <= every unified input ranking and the all-tied ranking (no starters), <= the own consensus of each starting algorithm re-run alone under the same pivot schedule, all returned rankings share one score, default BioConsert <= PickAPerm; DS(4,2) is in the quick tier because the id-order defect needs four elements.',
            'small-scope hypothesis'),
    'C14': ('3/C14', 'exhaustive enumeration of configurations (incl. nested) x all 96 schemes over {0,1} + preset multiples for the predicate; datasets x 12 schemes x configurations for the behaviour',
            'The predicate must answer a bool for every configuration and scheme in all three process modes; declared relevant implies a well-formed consensus on every incomplete dataset of the block, complete datasets are never refused, and Borda / PickAPerm / BioConsert started from them refuse exactly when they declared the scheme not relevant.',
            'one ranking requested (avoids the documented optimize/all-rankings incompatibility)'),
    'C05': ('3/C05', 'bounded-exhaustive enumeration of datasets x schemes x exact configurations x both flags x EVERY optimal vertex the solver may return, against a brute-force optimum over all rankings with ties; solver replaced by an exhaustive 0/1 enumerator (cplex stand-in, PuLP stand-in) and by real CBC',
            'Every dataset of DS(3,2) x 16 schemes, DS(3,3), DS(4,2), DS(2,3) on fewer schemes: result score == brute-force optimum; non-optimised CPLEX model with all rankings requested returns exactly the set of minimisers; the feasible set of the unpruned ILP is in bijection with WO(U) with objective == score at every point; the selector takes CPLEX when present and falls back to the free solver (real CBC) when absent. Thorough: structured families at n=6..8 against a subset-DP oracle.',
            'real CPLEX never run (stand-in returns exactly the optimal points); CBC trusted on <=30-variable models and cross-checked by the enumerator'),
    'C06': ('3/C06', 'bounded-exhaustive enumeration of datasets x schemes x ParCons configurations (bounds, auxiliaries, all pivot schedules, three solver modes) against the set of ALL brute-force minimisers',
            'parcons_partition is a partition and some minimiser respects it; the ParCons consensus respects it and reports it as weak partitioning; necessarily_optimal implies optimal for EVERY configuration; the ParCons flag equals "no component larger than the bound that cannot be all-tied at minimal cost" computed by the reference. All of DS(3,2), DS(3,3), and DS(4,2) for the partition.',
            'stand-ins as in C05'),
    'C07': ('3/C07', 'bounded-exhaustive enumeration of datasets x schemes against the set of ALL brute-force minimisers; exhaustive enumeration of all (ordered partition, consensus) pairs for the consistency test',
            'For every dataset of DS(3,2) x 16 schemes, DS(3,3) x 6, DS(4,2) x 2: ParFront is a partition, a merge of consecutive ParCons groups, and every minimiser respects it; consistent_with is compared with its definition on all pairs of WO(U) x (WO(U) + rankings over sub/super/other sets), n<=4, with and without an associated dataset, under a watchdog.',
            'malformed partitions / consensuses not covering their dataset are outside the property'),
    'C15': ('3/C15', 'explicit-state exploration of a transition system whose state is the complete __dict__ snapshot of (dataset, scheme): every event (75: all algorithm configurations x flags, score/description reads, partitions, views, write, scheme operations) from every start state under every schedule, plus all ordered pairs of events on shared objects vs fresh copies',
            'Every event is shown to be a self-loop on the complete snapshot from every dataset of DS(3,2) under three label presentations (so, by induction, any call sequence leaves the inputs unchanged), every event run twice gives equal results (KwikSort: under the same schedule), and all ordered pairs of events on shared objects give the same second result as on fresh copies (hidden global state).',
            'snapshot compares content (not object identity); events that raise must still leave inputs untouched'),
}

PENDING = {}


def entry(pid):
    sec, tech, text, note = CHECKS[pid]
    return {
        'property_id': pid,
        'quick_cmd': '%s mc/run.py %s --tier quick' % (PY, pid),
        'thorough_cmd': '%s mc/run.py %s --tier thorough' % (PY, pid),
        'evidence_file': '/verif/evidence/%s.json' % pid,
        'replay_cmd_template': '%s mc/run.py %s --replay {path}' % (PY, pid),
        'engine': 'mc',
        'level_claimed': {'category': 'model_checking', 'text': text, 'design_ref': 'DESIGN.md §' + sec},
        'level_note': note,
        'technique': tech,
    }


def main():
    props = [json.loads(l)['id'] for l in open(os.path.join(VERIF, 'properties.jsonl'))]
    man = {
        'version': 1,
        'setup_cmd': '%s mc/setup.py' % PY,
        'hooks': {
            'guard': 'CORANKCO_VERIF',
            'enable': 'no source hooks: the harness rebinds module-level names (random choice/randint/shuffle, cplex, '
                      'pulp solver) from outside; CORANKCO_VERIF=1 is exported by the runner but nothing in /repo reads it',
            'baseline_off_cmd': 'cd /repo && /venv/bin/python -m pytest -ra -q -p no:cacheprovider --timeout=900 '
                                '--continue-on-collection-errors',
            'source_commits': [],
            'add_only': True,
        },
        'engines': [{'name': 'mc', 'path': '/verif/mc', 'serves_properties': sorted(CHECKS),
                     'kind_free_text': 'hand-written explicit-state / bounded-exhaustive explorer driving the real '
                                       'library (Python), reference oracles, choice controller for all randomness, '
                                       'exhaustive 0/1 enumerator standing in for CPLEX'}],
        'checks': [entry(p) for p in props if p in CHECKS],
        'not_applicable': [{'property_id': p, 'reason': PENDING.get(p, 'check not built yet in this round (planned, see DESIGN.md §3); model checking applies')}
                           for p in props if p not in CHECKS],
        'notes': 'All checks are exhaustive within stated bounds; see DESIGN.md. Exit 2 = harness error.',
    }
    with open(os.path.join(VERIF, 'MANIFEST.json'), 'w') as f:
        json.dump(man, f, indent=1)
    print('MANIFEST.json: %d checks, %d not claimed' % (len(man['checks']), len(man['not_applicable'])))


if __name__ == '__main__':
    main()

"""Reference model: boring transcriptions of the property statements (DESIGN.md 2.2).

Nothing in this file imports corankco.  Rankings are tuples of tuples of abstract ints,
schemes are (B, T) pairs of 6-tuples.
"""
from fractions import Fraction
from itertools import combinations
import numpy as np
from . import spaces


from .harness import HarnessError  # noqa: E402  (the machinery, not corankco, is wrong: exit 2)


class PivotMismatch(Exception):
    """a recorded pivot is not in the sub-list the reference recursion is working on: the
    implementation partitioned differently from the reference at an earlier step."""


# ----------------------------------------------------------------------------- score

def pair_status(x, y, rpos):
    """status of the ordered pair (x, y) in an input ranking given as {element: bucket index}."""
    if x in rpos and y in rpos:
        if rpos[x] < rpos[y]:
            return 0
        if rpos[x] > rpos[y]:
            return 1
        return 2
    if x in rpos:
        return 3
    if y in rpos:
        return 4
    return 5


def bucket_index(ranking):
    return {x: i for i, b in enumerate(ranking) for x in b}


def ref_score(cand, rankings, B, T):
    """Literal definition of C01: sum over input rankings and unordered pairs of candidate elements."""
    pos = bucket_index(cand)
    elems = sorted(pos)
    total = 0.0
    for r in rankings:
        rpos = bucket_index(r)
        for x, y in combinations(elems, 2):
            if pos[x] > pos[y]:
                x, y = y, x
            st = pair_status(x, y, rpos)
            total += T[st] if pos[x] == pos[y] else B[st]
    return total


def ref_pair_counts(cand, rankings):
    """The twelve counters (6 for ordered pairs, 6 for tied pairs) — used for diagnostics."""
    pos = bucket_index(cand)
    elems = sorted(pos)
    s1 = [0] * 6
    s2 = [0] * 6
    for r in rankings:
        rpos = bucket_index(r)
        for x, y in combinations(elems, 2):
            if pos[x] > pos[y]:
                x, y = y, x
            st = pair_status(x, y, rpos)
            if pos[x] == pos[y]:
                s2[st] += 1
            else:
                s1[st] += 1
    return s1, s2


def ref_table(elems, rankings, B, T):
    """table[(x, y)] = (cost x before y, cost x after y, cost x tied y), by the definition:
    three two-element candidates scored with ref_score."""
    table = {}
    for x in elems:
        for y in elems:
            if x == y:
                continue
            table[(x, y)] = (ref_score(((x,), (y,)), rankings, B, T),
                             ref_score(((y,), (x,)), rankings, B, T),
                             ref_score((tuple(sorted((x, y))),), rankings, B, T))
    return table


def table_array(elems, table):
    """n x n x 3 numpy array indexed by position in `elems`."""
    n = len(elems)
    arr = np.zeros((n, n, 3))
    for i, x in enumerate(elems):
        for j, y in enumerate(elems):
            if i != j:
                arr[i, j, :] = table[(x, y)]
    return arr


def score_from_table(cand, table):
    pos = bucket_index(cand)
    total = 0.0
    for x, y in combinations(sorted(pos), 2):
        if pos[x] < pos[y]:
            total += table[(x, y)][0]
        elif pos[x] > pos[y]:
            total += table[(x, y)][1]
        else:
            total += table[(x, y)][2]
    return total


# ----------------------------------------------------------------------------- optimum

class WOIndex:
    """All weak orders of range(k) with an indicator matrix so that the score of every
    candidate is one matrix-vector product with the flattened k*k*3 table."""
    _cache = {}

    def __init__(self, k):
        self.k = k
        self.orders = spaces.weak_orders(tuple(range(k)))
        W = np.zeros((len(self.orders), k * k * 3))
        for ci, c in enumerate(self.orders):
            pos = bucket_index(c)
            for x, y in combinations(range(k), 2):
                rel = 0 if pos[x] < pos[y] else 1 if pos[x] > pos[y] else 2
                W[ci, (x * k + y) * 3 + rel] = 1.0
        self.W = W

    @classmethod
    def get(cls, k):
        if k not in cls._cache:
            cls._cache[k] = cls(k)
        return cls._cache[k]


def all_scores(elems, table):
    """(orders over elems, numpy vector of their scores)."""
    k = len(elems)
    idx = WOIndex.get(k)
    arr = table_array(elems, table)
    scores = idx.W @ arr.reshape(-1)
    orders = [tuple(tuple(elems[i] for i in b) for b in c) for c in idx.orders]
    return orders, scores


def ref_optimum(elems, table, tol=1e-9):
    """(minimum score, list of ALL minimisers) over WO(elems) by brute force."""
    if len(elems) == 0:
        return 0.0, [()]
    orders, scores = all_scores(elems, table)
    m = float(scores.min())
    mins = [orders[i] for i in np.nonzero(scores <= m + tol)[0]]
    return m, mins


def dp_optimum(elems, table):
    """Independent exact optimum by subset dynamic programming on the first bucket (3^n)."""
    elems = tuple(elems)
    n = len(elems)
    full = (1 << n) - 1
    arr = table_array(elems, table)
    # tie cost inside a set, and cost of set S entirely before set R
    tie = [0.0] * (1 << n)
    for mask in range(1, 1 << n):
        low = (mask & -mask).bit_length() - 1
        rest = mask & (mask - 1)
        c = tie[rest]
        j = 0
        r = rest
        while r:
            if r & 1:
                c += arr[low, j, 2]
            r >>= 1
            j += 1
        tie[mask] = c
    # before_cost[x][mask] = sum_{y in mask} arr[x,y,0]
    bef = [[0.0] * (1 << n) for _ in range(n)]
    for x in range(n):
        for mask in range(1, 1 << n):
            low = (mask & -mask).bit_length() - 1
            bef[x][mask] = bef[x][mask & (mask - 1)] + (arr[x, low, 0] if low != x else 0.0)
    best = [0.0] * (1 << n)
    for mask in range(1, 1 << n):
        b = float('inf')
        sub = mask
        while sub:
            rest = mask & ~sub
            c = tie[sub] + best[rest]
            if rest:
                for x in range(n):
                    if sub >> x & 1:
                        c += bef[x][rest]
            if c < b:
                b = c
            sub = (sub - 1) & mask
        best[mask] = b
    return best[full]


def components(universe, table):
    """strongly connected components of the graph of elements (arc x->y unless 'x after y' is a cheapest
    placement), as a list of sets (no particular order) — reference, by plain reachability."""
    adj = {x: [y for y in universe if y != x and (table[(x, y)][1] > table[(x, y)][0] or table[(x, y)][1] > table[(x, y)][2])]
           for x in universe}
    reach = {}
    for x in universe:
        seen, todo = {x}, [x]
        while todo:
            y = todo.pop()
            for z in adj[y]:
                if z not in seen:
                    seen.add(z)
                    todo.append(z)
        reach[x] = seen
    done, out = set(), []
    for x in universe:
        if x not in done:
            c = {y for y in reach[x] if x in reach[y]}
            done |= c
            out.append(c)
    return out


def all_tieable(group, table):
    return all(table[(x, y)][2] <= min(table[(x, y)][0], table[(x, y)][1]) for x in group for y in group if x < y)


def nontrivial_components(universe, table):
    return [c for c in components(universe, table) if len(c) >= 2 and not all_tieable(c, table)]


def respects_partition(order, groups):
    """every element of an earlier group strictly before every element of a later group."""
    pos = bucket_index(order)
    gi = {}
    for i, g in enumerate(groups):
        for x in g:
            gi[x] = i
    for x in pos:
        for y in pos:
            if gi[x] < gi[y] and not pos[x] < pos[y]:
                return False
    return True


# ----------------------------------------------------------------------------- dataset model

def unify(ranking, universe):
    dom = set(x for b in ranking for x in b)
    missing = tuple(sorted(x for x in universe if x not in dom))
    return tuple(ranking) + ((missing,) if missing else ())


def project(dataset, keep):
    keep = set(keep)
    out = []
    for r in dataset:
        nr = tuple(tuple(x for x in b if x in keep) for b in r)
        nr = tuple(b for b in nr if b)
        if nr:
            out.append(nr)
    return tuple(out)


def remove_elements(dataset, removed):
    """Reference for Dataset.remove_elements: rankings that become empty are dropped."""
    removed = set(removed)
    out = []
    for r in dataset:
        nr = tuple(tuple(x for x in b if x not in removed) for b in r)
        nr = tuple(b for b in nr if b)
        if nr:
            out.append(nr)
    return tuple(out)


def positions(ranking):
    """1 + number of elements strictly before."""
    pos = {}
    before = 0
    for b in ranking:
        for x in b:
            pos[x] = before + 1
        before += len(b)
    return pos


# ----------------------------------------------------------------------------- schemes

def proportional(s1, s2, stop=6):
    """s1 is a positive multiple of s2 on B[:stop] and T[:stop] (exact rationals)."""
    v1 = [Fraction(x) for x in s1[0][:stop]] + [Fraction(x) for x in s1[1][:stop]]
    v2 = [Fraction(x) for x in s2[0][:stop]] + [Fraction(x) for x in s2[1][:stop]]
    coeff = None
    for a, b in zip(v1, v2):
        if a == 0 and b == 0:
            continue
        if a == 0 or b == 0:
            return False
        if coeff is None:
            coeff = a / b
        elif a / b != coeff:
            return False
    return True


def nickname(s):
    if proportional(s, spaces.UNIFYING):
        return "UKSP"
    if proportional(s, spaces.PSEUDO):
        return "GPDP"
    if proportional(s, spaces.INDUCED):
        return "IGKS"
    if proportional(s, spaces.EXTENDED):
        return "EKS"
    return None


# ----------------------------------------------------------------------------- simple algorithms

def ref_borda(dataset, universe, family, use_bucket_id):
    """family: 'unifying' (unranked = one last bucket), 'induced' (skipped).  Returns the
    ranking as tuple of sorted tuples, by increasing mean, tied iff equal (exact Fractions)."""
    pts = {}
    for r in dataset:
        rr = unify(r, universe) if family == 'unifying' else r
        score = 0
        for b in rr:
            for x in b:
                p = pts.setdefault(x, [0, 0])
                p[0] += score
                p[1] += 1
            score += 1 if use_bucket_id else len(b)
    means = {x: Fraction(p[0], p[1]) for x, p in pts.items()}
    groups = {}
    for x, mval in means.items():
        groups.setdefault(mval, []).append(x)
    return tuple(tuple(sorted(groups[k])) for k in sorted(groups))


def ref_copeland(elems, table):
    """per element (victories, equalities, defeats), score, and the ranking by decreasing score."""
    ved = {x: [0, 0, 0] for x in elems}
    for x, y in combinations(elems, 2):
        bef, aft, _ = table[(x, y)]
        if bef < aft:
            ved[x][0] += 1
            ved[y][2] += 1
        elif aft < bef:
            ved[y][0] += 1
            ved[x][2] += 1
        else:
            ved[x][1] += 1
            ved[y][1] += 1
    score = {x: ved[x][0] + Fraction(ved[x][1], 2) for x in elems}
    groups = {}
    for x, s in score.items():
        groups.setdefault(s, []).append(x)
    ranking = tuple(tuple(sorted(groups[k])) for k in sorted(groups, reverse=True))
    return ved, score, ranking


def kwik_pref(table, x, pivot):
    """Cheapest placement of x relative to pivot with the stated tie-breaks: tie if the tied cost
    is <= both others; else before if before <= after; else after.  Returns -1, 0, 1."""
    bef, aft, tied = table[(x, pivot)]
    if tied <= bef and tied <= aft:
        return 0
    if tied <= bef:
        # tied <= bef but tied > aft
        return 1
    if bef <= aft:
        return -1
    return 1


def ref_kwiksort(elems_in_order, table, pivots):
    """Simulate KwikSort on the list `elems_in_order` with the given iterator of pivots
    (one consumed per recursion step on a list of >= 1 elements, as the library draws them).
    Returns list of buckets (each a list, in placement order)."""
    out = []

    def rec(lst):
        pivot = next(pivots)
        if pivot not in lst:
            raise PivotMismatch("pivot %r not among %r" % (pivot, lst))
        before, same, after = [], [pivot], []
        for x in lst:
            if x == pivot:
                continue
            p = kwik_pref(table, x, pivot)
            (before if p < 0 else after if p > 0 else same).append(x)
        if len(before) == 1:
            out.append(before)
        elif before:
            rec(before)
        out.append(same)
        if len(after) == 1:
            out.append(after)
        elif after:
            rec(after)
    rec(list(elems_in_order))
    return out


def canon(ranking):
    """tuple of sorted tuples, for comparisons."""
    return tuple(tuple(sorted(b)) for b in ranking)


# ----------------------------------------------------------------------------- self checks

def self_check():
    """Identities that do not involve corankco; a failure is a harness error."""
    n = 4
    elems = tuple(range(n))
    swo = spaces.sub_weak_orders(n)
    picks = [swo[i] for i in (0, 3, 17, 41, 77, 101, 149)]
    for name, (B, T) in spaces.SCHQ:
        for i in range(len(picks) - 1):
            ds = (picks[i], picks[i + 1], picks[(i * 3 + 2) % len(picks)])
            table = ref_table(elems, ds, B, T)
            orders, scores = all_scores(elems, table)
            for c, s in zip(orders, scores):
                a = ref_score(c, ds, B, T)
                b = score_from_table(c, table)
                if abs(a - b) > 1e-9 or abs(a - s) > 1e-9:
                    raise HarnessError("table-sum identity fails in reference model: %r %r %r %r" % (c, a, b, s))
            m, _ = ref_optimum(elems, table)
            d = dp_optimum(elems, table)
            if abs(m - d) > 1e-9:
                raise HarnessError("brute force optimum %r != DP optimum %r" % (m, d))
    assert proportional(spaces.UNIFYING_X3, spaces.UNIFYING)
    assert not proportional(spaces.UNIF_B_OTHER_T, spaces.UNIFYING)
    assert proportional(spaces.UNIF_B_OTHER_T, spaces.UNIFYING, 0) is True
    return True

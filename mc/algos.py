"""Algorithm configurations shared by the cross-algorithm checks (C03, C04, C05, C06, C08, C09, C14, C15).
Imported inside workers only.

Process modes (cfg['mode']):
  'absent'      CPLEX not importable (the real situation of this sandbox), real bundled CBC for PuLP
  'absent_enum' CPLEX not importable, pulp.PULP_CBC_CMD rebound to the exhaustive enumerating solver
  'stub'        the cplex stand-in module installed before corankco is imported; PuLP -> enumerating solver
"""
from . import harness, chooser, envstub

MODES = ('absent', 'absent_enum', 'stub')
_state = {}


def init_mode(mode):
    if mode not in MODES:
        raise harness.HarnessError("mode %r" % mode)
    harness.import_library(mode == 'stub')
    import pulp
    _state['mode'] = mode
    _state['real_cbc'] = pulp.PULP_CBC_CMD
    if mode in ('absent_enum', 'stub'):
        pulp.PULP_CBC_CMD = envstub.make_pulp_enum_solver()
    import corankco.algorithms.exact.exactalgorithmcplex as m
    has = getattr(m, 'cplex', None)
    if mode == 'stub' and not getattr(has, '__is_standin__', False):
        raise harness.HarnessError("stand-in cplex not bound in exactalgorithmcplex")
    if mode != 'stub' and has is not None and not isinstance(has, type(None)):
        raise harness.HarnessError("a cplex module is importable in 'absent' mode")


class Config:
    def __init__(self, name, factory, tags=(), starters=None):
        self.name = name
        self.factory = factory
        self.tags = set(tags)
        self.starters = starters   # for BioConsert configurations: list of (name, factory) of the starting algorithms

    def __repr__(self):
        return self.name


def all_configs(mode=None):
    """every configuration that can be constructed by a user in this mode."""
    mode = mode or _state['mode']
    from corankco.algorithms.bioconsert.bioconsert import BioConsert
    from corankco.algorithms.bioconsert.bioco import BioCo
    from corankco.algorithms.borda.borda import BordaCount
    from corankco.algorithms.copeland.copeland import CopelandMethod
    from corankco.algorithms.kwiksort.kwiksortrandom import KwikSortRandom
    from corankco.algorithms.pickaperm.pickaperm import PickAPerm
    from corankco.algorithms.parcons.parcons import ParCons
    from corankco.algorithms.exact.exactalgorithm import ExactAlgorithm
    from corankco.algorithms.exact.exactalgorithmpulp import ExactAlgorithmPulp
    from corankco.algorithms.exact.exactalgorithmcplex import ExactAlgorithmCplex
    from corankco.algorithms.exact.exactalgorithmcplexforpaperoptim1 import ExactAlgorithmCplexForPaperOptim1
    solver = 'cbc' if mode == 'absent' else 'enum'
    st = {'Copeland': lambda: CopelandMethod(), 'Borda': lambda: BordaCount(), 'KwikSort': lambda: KwikSortRandom(),
          'PickAPerm': lambda: PickAPerm()}
    C = [
        Config('BioConsert', lambda: BioConsert(), {'bio', 'bio_default', 'fast'}),
        Config('BioConsert[Copeland]', lambda: BioConsert([CopelandMethod()]), {'bio', 'fast'}),
        Config('BioConsert[Borda]', lambda: BioConsert([BordaCount()]), {'bio', 'fast', 'needs_borda'}),
        Config('BioConsert[KwikSort]', lambda: BioConsert([KwikSortRandom()]), {'bio', 'fast', 'kwik'}),
        Config('BioConsert[PickAPerm]', lambda: BioConsert([PickAPerm()]), {'bio', 'fast', 'needs_pick'}),
        Config('BioConsert[Borda,Copeland]', lambda: BioConsert([BordaCount(), CopelandMethod()]),
               {'bio', 'fast', 'needs_borda'}),
        Config('BioConsert[Borda,KwikSort,PickAPerm]',
               lambda: BioConsert([BordaCount(), KwikSortRandom(), PickAPerm()]),
               {'bio', 'fast', 'kwik', 'needs_borda', 'needs_pick'}),
        Config('BioConsert[Copeland,KwikSort]', lambda: BioConsert([CopelandMethod(), KwikSortRandom()]),
               {'bio', 'fast', 'kwik'}),
        Config('BioCo', lambda: BioCo(), {'bio', 'fast', 'needs_borda'}),
        Config('KwikSort', lambda: KwikSortRandom(), {'fast', 'kwik'}),
        Config('Borda', lambda: BordaCount(), {'fast', 'needs_borda'}),
        Config('Borda(bucket_id)', lambda: BordaCount(use_bucket_id=True), {'fast', 'needs_borda'}),
        Config('Copeland', lambda: CopelandMethod(), {'fast'}),
        Config('PickAPerm', lambda: PickAPerm(), {'fast', 'needs_pick'}),
        Config('Exact(opt=True)', lambda: ExactAlgorithm(optimize=True), {'exact', 'selector', 'optimize', solver}),
        Config('Exact(opt=False)', lambda: ExactAlgorithm(optimize=False), {'exact', 'selector', solver}),
        Config('Exact()', lambda: ExactAlgorithm(), {'exact', 'selector', 'optimize', solver}),
        Config('ExactPulp', lambda: ExactAlgorithmPulp(), {'exact', 'pulp', solver}),
        Config('ParCons', lambda: ParCons(), {'parcons', 'exact_if_flagged', solver}),
        Config('ParCons(b=0)', lambda: ParCons(bound_for_exact=0), {'parcons', 'fast'}),
        Config('ParCons(b=1,KwikSort)', lambda: ParCons(KwikSortRandom(), 1), {'parcons', 'fast', 'kwik'}),
        Config('ParCons(b=2,Copeland)', lambda: ParCons(CopelandMethod(), 2), {'parcons', solver}),
        Config('ParCons(b=0,KwikSort)', lambda: ParCons(KwikSortRandom(), 0), {'parcons', 'fast', 'kwik'}),
        Config('ParCons(b=0,Copeland)', lambda: ParCons(CopelandMethod(), 0), {'parcons', 'fast'}),
        Config('ParCons(b=2)', lambda: ParCons(bound_for_exact=2), {'parcons', solver}),
        Config('ParCons(b=3,KwikSort)', lambda: ParCons(KwikSortRandom(), 3), {'parcons', 'kwik', solver}),
        Config('ParCons(b=3,Copeland)', lambda: ParCons(CopelandMethod(), 3), {'parcons', solver, 'b3'}),
        Config('ParCons(b=3,Borda)', lambda: ParCons(BordaCount(), 3), {'parcons', solver, 'b3', 'needs_borda'}),
    ]
    for c in C:
        if 'bio' in c.tags:
            inner = c.name[c.name.index('[') + 1:-1].split(',') if '[' in c.name else (['Borda'] if c.name == 'BioCo' else [])
            c.starters = [(x, st[x]) for x in inner]
    if mode == 'stub':
        C += [
            Config('ExactCplex(opt=True)', lambda: ExactAlgorithmCplex(optimize=True), {'exact', 'cplex', 'optimize', 'enum'}),
            Config('ExactCplex(opt=False)', lambda: ExactAlgorithmCplex(optimize=False), {'exact', 'cplex', 'enum'}),
            Config('ExactCplexOptim1', lambda: ExactAlgorithmCplexForPaperOptim1(), {'exact', 'cplex', 'enum'}),
        ]
    return C


def nested_configs(mode=None):
    """extra (nested) configurations for C14."""
    from corankco.algorithms.bioconsert.bioconsert import BioConsert
    from corankco.algorithms.bioconsert.bioco import BioCo
    from corankco.algorithms.borda.borda import BordaCount
    from corankco.algorithms.pickaperm.pickaperm import PickAPerm
    from corankco.algorithms.parcons.parcons import ParCons
    from corankco.algorithms.exact.exactalgorithm import ExactAlgorithm
    from corankco.algorithms.copeland.copeland import CopelandMethod
    mode = mode or _state['mode']
    solver = 'cbc' if mode == 'absent' else 'enum'
    return [
        Config('BioConsert[Exact,Borda]', lambda: BioConsert([ExactAlgorithm(), BordaCount()]), {'bio', solver, 'needs_borda'}),
        Config('BioConsert[Exact,PickAPerm]', lambda: BioConsert([ExactAlgorithm(), PickAPerm()]), {'bio', solver, 'needs_pick'}),
        Config('BioConsert[ParCons,Borda(bucket_id)]', lambda: BioConsert([ParCons(), BordaCount(use_bucket_id=True)]),
               {'bio', solver, 'needs_borda'}),
        Config('BioConsert[Borda,Exact]', lambda: BioConsert([BordaCount(), ExactAlgorithm()]), {'bio', solver, 'needs_borda'}),
        Config('BioConsert[Copeland,Borda]', lambda: BioConsert([CopelandMethod(), BordaCount()]), {'bio', 'fast', 'needs_borda'}),
        Config('BioConsert[BioCo]', lambda: BioConsert([BioCo()]), {'bio', 'fast', 'needs_borda'}),
        Config('ParCons(b=0,Borda)', lambda: ParCons(BordaCount(), 0), {'parcons', 'fast', 'needs_borda'}),
        Config('ParCons(b=1,BioCo)', lambda: ParCons(BioCo(), 1), {'parcons', 'fast', 'needs_borda'}),
        Config('ParCons(b=0,PickAPerm)', lambda: ParCons(PickAPerm(), 0), {'parcons', 'fast', 'needs_pick'}),
        Config('ParCons(b=0,BioConsert[Borda])', lambda: ParCons(BioConsert([BordaCount()]), 0),
               {'parcons', 'fast', 'needs_borda'}),
    ]


def config_by_name(name, mode=None):
    for c in all_configs(mode) + nested_configs(mode):
        if c.name == name:
            return c
    raise harness.HarnessError("unknown configuration %r" % name)


def documented_refusals():
    from corankco.algorithms.rank_aggregation_algorithm import ScoringSchemeNotHandledException
    from corankco.algorithms.pickaperm.pickaperm import InompleteRankingsIncompatibleWithScoringSchemeException
    from corankco.algorithms.exact.exactalgorithmbase import IncompatibleArgumentsException
    return (ScoringSchemeNotHandledException, InompleteRankingsIncompatibleWithScoringSchemeException,
            IncompatibleArgumentsException)


def run_config(cfg, dataset, scheme, one, choices=None, timeout=60, alg=None):
    """One execution under a scripted schedule.  Returns (status, value, trace):
    status 'ok' (Consensus), 'refused' (documented exception), 'exc' (anything else), 'timeout'.
    `alg`: an existing algorithm object to REUSE (default: a fresh one from cfg.factory())."""
    refusals = documented_refusals()
    ch = chooser.Chooser(choices or [])
    status, value = None, None
    with ch:
        try:
            with harness.watchdog(timeout):
                if alg is None:
                    alg = cfg.factory()
                value = alg.compute_consensus_rankings(dataset, scheme, one)
                status = 'ok'
        except refusals as e:
            status, value = 'refused', e
        except harness.CaseTimeout as e:
            status, value = 'timeout', e
        except (harness.HarnessError, harness.UnownedRandomness):
            raise
        except Exception as e:
            status, value = 'exc', e
    if choices is not None and ch.i < len(choices) and status == 'ok':
        raise harness.HarnessError("schedule %r not consumed by %s" % (choices, cfg.name))
    return status, value, ch.trace


def explore_config(cfg, make_inputs, one, max_runs=3000, timeout=60, on_start=None):
    """All schedules (pivot draws, optimal-vertex choices) of one configuration on one input; every
    execution gets FRESH objects from make_inputs().  Yields (choices, status, value, dataset, scheme)."""
    stack = [[]]
    runs = 0
    while stack:
        prefix = stack.pop()
        dataset, scheme = make_inputs()
        if on_start is not None:
            on_start(prefix)
        status, value, trace = run_config(cfg, dataset, scheme, one, prefix, timeout)
        runs += 1
        if runs > max_runs:
            raise harness.HarnessError("more than %d schedules for %s" % (max_runs, cfg.name))
        cs = [c for _, _, c in trace]
        for i in range(len(prefix), len(trace)):
            for alt in range(trace[i][1] - 1, 0, -1):
                stack.append(cs[:i] + [alt])
        yield cs, status, value, dataset, scheme

#!/venv/bin/python
"""Developer tool (not a registered check): apply one textual mutation to a scratch copy of /repo
outside /repo and /verif, optionally run the repository's own tests on it, run checks against it,
delete the copy.
  mc/trymut.py --file corankco/x.py --old 'a' --new 'b' [--count 1] [--tests] C01 [C02 ...]
  mc/trymut.py --patch some.diff [--tests] C01
"""
import argparse, os, shutil, subprocess, sys, tempfile
ap = argparse.ArgumentParser()
ap.add_argument('--file'); ap.add_argument('--old'); ap.add_argument('--new'); ap.add_argument('--patch')
ap.add_argument('--tests', action='store_true'); ap.add_argument('--tier', default='quick')
ap.add_argument('--seed', default='0')
ap.add_argument('props', nargs='*')
a = ap.parse_args()
tmp = tempfile.mkdtemp(prefix='mcmut_', dir='/tmp')
try:
    dst = os.path.join(tmp, 'repo')
    shutil.copytree('/repo', dst, ignore=shutil.ignore_patterns('.git', '__pycache__', '*.egg-info', 'docs'))
    if a.patch:
        r = subprocess.run(['patch', '-p1', '-d', dst, '-i', os.path.abspath(a.patch)], capture_output=True, text=True)
        if r.returncode: print(r.stdout, r.stderr); sys.exit(3)
    else:
        p = os.path.join(dst, a.file); s = open(p).read()
        if s.count(a.old) != 1:
            print('pattern occurs %d times' % s.count(a.old)); sys.exit(3)
        open(p, 'w').write(s.replace(a.old, a.new))
    env = dict(os.environ, PYTHONPATH=dst, VERIF_SEED=a.seed, NUMBA_CACHE_DIR=os.path.join(tmp, 'nc'))
    env.pop('MC_PINNED', None)
    if a.tests:
        r = subprocess.run(['/venv/bin/python', '-m', 'pytest', '-q', '-x', '-p', 'no:cacheprovider', '--timeout=900', 'tests'],
                           cwd=dst, env=env, capture_output=True, text=True)
        print('repo tests:', r.stdout.strip().splitlines()[-1] if r.stdout.strip() else r.stderr[-300:])
    for prop in a.props:
        r = subprocess.run(['/venv/bin/python', '/verif/mc/run.py', prop, '--repo', dst, '--tier', a.tier, '--no-evidence'],
                           env=env, capture_output=True, text=True)
        lines = [l for l in r.stdout.splitlines() if 'VIOLATION' in l or ' @ ' in l or 'seed=' in l]
        print('%s exit=%d' % (prop, r.returncode)); print('\n'.join(lines[:8]))
        if r.returncode == 2: print(r.stderr[-1500:])
finally:
    shutil.rmtree(tmp, ignore_errors=True)

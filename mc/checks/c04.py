"""C04 — the Kemeny score a consensus reports is the true score of each returned ranking."""
import numpy as np
from .. import spaces, refmodel, harness, algos, cross
from ..harness import Ctx
from ..lib import wellformed, ds_shards

ID = 'C04'
_lib = {}


def plan(tier, seed):
    alt = spaces.label_choices(seed, 1)[0]
    fast = lambda **k: dict({'configs': 'fast'}, **k)
    if tier == 'quick':
        by_mode = {
            'absent': [fast(n=3, m=2, labels='ints', schemes='six_t', reuse=False), fast(n=3, m=2, labels='ints', schemes='two'),
                       fast(n=2, m=3, labels='ints', schemes='six_t', reuse=False),
                       fast(n=3, m=3, labels='ints', schemes='one_t', per=60, configs='bio_det', flags='all_only'),
                       fast(n=4, m=2, labels='ints', schemes='two_h', per=60, flags='all_only', configs='fast_det'),
                       fast(n=3, m=2, labels=alt, schemes='two'),
                       dict(n=3, m=2, labels='ints', schemes='two', configs='cbc', per=6),
                       dict(n=1, m=2, labels='ints', schemes='two', configs='all'),
                       dict(n=3, m=2, labels='ints', schemes='one', configs='fast_det', premutate=True, reuse=False)],
            'absent_enum': [dict(n=3, m=2, labels='ints', schemes='three', configs='solver'),
                            dict(n=3, m=2, labels='ints', schemes='one', configs='solver', premutate=True, reuse=False, flags='one'),
                            dict(space='ext43', labels='ints', schemes='ext1', configs='solver', per=300, reuse=False)],
            'stub': [dict(n=3, m=2, labels='ints', schemes='six', configs='solver'),
                     dict(n=3, m=3, labels='ints', schemes='one', configs='solver', per=40),
                     dict(n=1, m=2, labels='ints', schemes='two', configs='all')],
        }
        ker = [dict(n=4, m=1, schemes='four'), dict(n=3, m=2, schemes='six'), dict(n=4, m=2, schemes='one_b', per=100)]
    else:
        by_mode = {
            'absent': [fast(n=4, m=2, labels='ints', schemes='six', per=60, configs='fast_det'),
                       fast(n=4, m=2, labels='ints', schemes='two', per=60),
                       fast(n=3, m=3, labels='ints', schemes='six', per=60), fast(n=5, m=1, labels='ints', schemes='all'),
                       fast(n=4, m=2, labels=alt, schemes='two', per=60, configs='fast_det'),
                       dict(n=3, m=2, labels='ints', schemes='six', configs='cbc', per=6),
                       dict(n=3, m=3, labels='ints', schemes='one', configs='cbc', per=30, maxk=256)],
            'absent_enum': [dict(n=4, m=2, labels='ints', schemes='six', configs='solver', per=60),
                            dict(n=3, m=3, labels='ints', schemes='six', configs='solver', per=60)],
            'stub': [dict(n=4, m=2, labels='ints', schemes='six', configs='solver', per=60),
                     dict(n=3, m=3, labels='ints', schemes='six', configs='solver', per=60),
                     dict(n=5, m=1, labels='ints', schemes='all', configs='solver')],
        }
        ker = [dict(n=5, m=1, schemes='four'), dict(n=4, m=2, schemes='four', per=100), dict(n=3, m=3, schemes='four', per=100)]
    phases = cross.std_phases(by_mode)
    for b in ker:
        phases[0]['shards'].extend(ds_shards([b], per=b.get('per', 20), maxk=64, kind='kernel'))
    return phases


def init_worker(cfg):
    mode = cfg['mode']
    algos.init_mode(mode)
    _lib['mode'] = mode
    allc = cross.select_configs(mode, lambda c: True)
    _lib['all'] = allc
    _lib['fast'] = [c for c in allc if 'fast' in c.tags]
    _lib['fast_det'] = [c for c in allc if 'fast' in c.tags and 'kwik' not in c.tags]
    _lib['cbc'] = [c for c in allc if 'cbc' in c.tags]
    _lib['bio_det'] = [c for c in allc if 'bio' in c.tags and 'kwik' not in c.tags]
    _lib['solver'] = [c for c in allc if 'enum' in c.tags or 'cbc' in c.tags]
    from corankco.consensus import ConsensusFeature
    from corankco.algorithms.bioconsert.bioconsert import BioConsert
    from corankco.algorithms.pairwisebasedalgorithm import PairwiseBasedAlgorithm
    _lib.update(F=ConsensusFeature, Bio=BioConsert, P=PairwiseBasedAlgorithm)


def is_number(x):
    return isinstance(x, (int, float, np.integer, np.floating)) and not isinstance(x, bool) and x == x


def oracle(ctx, info):
    if info.status != 'ok':
        ctx.count('no_consensus_object_' + info.status)
        return
    c = info.value
    for r in c.consensus_rankings:
        if wellformed(r, info.back, info.universe):
            ctx.count('malformed_consensus_skipped')   # C03's business; the score cannot be judged
            return
    got = info.rankings()
    if not got:
        ctx.count('empty_consensus_skipped')
        return
    truth = [info.ref.score(r) for r in got]
    tol = 1e-6
    F = _lib['F']
    # the feature BEFORE the lazy computation is triggered: the -1 sentinel means "not computed yet"
    try:
        feat = c.features[F.KEMENY_SCORE]
    except Exception as e:
        ctx.violation('score-feature-unreadable', info.case(), None, truth, exc=e)
        return
    supplied = not (is_number(feat) and feat == -1)
    if supplied:
        ctx.count('score_supplied_by_algorithm')
        if not is_number(feat):
            ctx.violation('supplied-score-is-not-a-number', info.case(result=got), repr(feat), truth)
            return
        if feat < 0:
            ctx.violation('supplied-score-negative', info.case(result=got), float(feat), truth)
            return
        for r, t in zip(got, truth):
            if abs(float(feat) - t) > tol:
                ctx.violation('supplied-score-differs-from-true-score', info.case(result=got, ranking=r), float(feat), t)
                return
    else:
        ctx.count('score_computed_on_demand')
    try:
        ks = c.kemeny_score
    except Exception as e:
        ctx.violation('kemeny-score-raises', info.case(result=got), None, truth, exc=e)
        return
    if not is_number(ks):
        ctx.violation('kemeny-score-absent', info.case(result=got), repr(ks), truth)
        return
    if ks < 0:
        ctx.violation('kemeny-score-negative', info.case(result=got), float(ks), truth)
        return
    for r, t in zip(got, truth):
        if abs(float(ks) - t) > tol:
            ctx.violation('kemeny-score-differs-from-true-score', info.case(result=got, ranking=r), float(ks), t)
            return
    # asking again gives the same number
    if c.kemeny_score != ks:
        ctx.violation('kemeny-score-not-stable', info.case(result=got), [ks, c.kemeny_score], None)
    if truth[0] > 0:
        ctx.nontrivial += 1
    if len(got) > 1:
        ctx.count('consensus_with_several_rankings')
    ctx.outcome((info.cfg.name, truth[0]))
    if ctx.evals % 6000 == 1:
        ctx.sample(info.case(result=got, reported=float(ks)))


def run_kernel(ctx, sh):
    """BioConsert bookkeeping at its source: the real _bio_consert kernel from EVERY start state."""
    from ..lib import mk_dataset, mk_scheme, labels_for
    from .c08 import start_vectors, vec_to_ranking
    n = sh['n']
    labels = labels_for('ints', n)
    kern = getattr(_lib['Bio'], '_bio_consert', None)
    if kern is None:
        ctx.count('kernel_level_degraded_private_name_missing')
        return
    seen = set()
    for index, ds in spaces.ds_iter_strided(n, sh['m'], sh['shard'], sh['nshards']):
        dataset = mk_dataset(ds, labels)
        k = dataset.nb_elements
        if k < 2:
            continue
        pos = dataset.get_positions()
        for s in cross.SCHEME_KINDS[sh['schemes']]:
            M = _lib['P'].pairwise_cost_matrix(pos, mk_scheme(s))
            key = M.tobytes()
            if key in seen:
                continue
            seen.add(key)
            table = {(i, j): tuple(M[i, j]) for i in range(k) for j in range(k) if i != j}
            starts = start_vectors(k)
            dep = np.array(starts, dtype=np.int32).reshape(-1)
            dst = np.zeros(len(starts), dtype=np.float64)
            case = {'cfg': {'mode': _lib['mode']}, 'kind': 'kernel', 'dataset': ds, 'n': n, 'scheme': s}
            harness.mark(case)
            ctx.evals += 1
            try:
                kern(dep, np.ascontiguousarray(M.reshape(-1)), k, len(starts), dst)
            except Exception as e:
                ctx.violation('bioconsert-kernel-raises', case, None, None, exc=e)
                continue
            finals = dep.reshape(-1, k)
            for st, fin, reported in zip(starts, finals, dst):
                ctx.cases += 1
                fin = tuple(int(x) for x in fin)
                if min(fin) != 0 or set(fin) != set(range(max(fin) + 1)):
                    ctx.violation('bioconsert-kernel-vector-not-dense', dict(case, start=st), fin, None)
                    continue
                t = refmodel.score_from_table(vec_to_ranking(fin), table)
                if abs(float(reported) - t) > 1e-6:
                    ctx.violation('bioconsert-bookkeeping-differs-from-true-score', dict(case, start=st, final=fin),
                                  float(reported), t)
                if fin != st:
                    ctx.nontrivial += 1
            ctx.count('kernel_start_states', len(starts))
    ctx.sample({'kind': 'kernel', 'block': [n, sh['m']], 'schemes': sh['schemes']})


def run_shard(sh):
    ctx = Ctx(ID)
    if sh.get('kind') == 'kernel':
        run_kernel(ctx, sh)
    else:
        flags = (False,) if sh.get('flags') == 'all_only' else (True,) if sh.get('flags') == 'one' else (True, False)
        cross.run_block(ctx, sh, _lib['mode'], _lib[sh['configs']], oracle, flags=flags)
    return ctx.result()


def replay(ctx, c):
    if c.get('kind') == 'kernel':
        from ..lib import tt
        run_kernel_one(ctx, c)
    else:
        cross.replay_case(ctx, c, oracle)


def run_kernel_one(ctx, c):
    from ..lib import tt, scheme_of
    ds = tt(c['dataset'])
    # one dataset, one scheme: reuse the block runner on a degenerate stripe
    orig = cross.SCHEME_KINDS.get('_replay')
    cross.SCHEME_KINDS['_replay'] = [scheme_of(c['scheme'])]
    try:
        base = len(spaces.sub_weak_orders(c['n']))
        swo = spaces.sub_weak_orders(c['n'])
        index = 0
        for r in ds:
            index = index * base + swo.index(r)
        total = base ** len(ds)
        run_kernel(ctx, {'n': c['n'], 'm': len(ds), 'schemes': '_replay', 'shard': index, 'nshards': total})
    finally:
        if orig is None:
            cross.SCHEME_KINDS.pop('_replay', None)


def summarize(tier, seed, merged, phases):
    c = merged['counters']
    cov = {'rule': 'every dataset of the blocks x schemes (incl. the positional base-64 scheme) x every algorithm '
                   'configuration (three process modes: CPLEX absent with real CBC, CPLEX absent with the enumerating '
                   'PuLP solver, cplex stand-in) x both flags x all schedules (pivots, optimal-vertex choices): '
                   'features[KEMENY_SCORE] read BEFORE the lazy path is triggered must already be truthful unless it is '
                   'the -1 sentinel; kemeny_score must be a non-negative real within 1e-6 of ref_score of EVERY returned '
                   'ranking. Plus the real _bio_consert kernel run from every start state of WO(k) for every distinct '
                   'cost matrix (reported distance == true score of the final state). Executions that produce no '
                   'consensus object are not judged here (C03)',
           'kernel_start_states': c.get('kernel_start_states', 0)}
    guards = [('scores supplied by the algorithm', c.get('score_supplied_by_algorithm', 0)),
              ('scores computed on demand', c.get('score_computed_on_demand', 0)),
              ('several rankings', c.get('consensus_with_several_rankings', 0)),
              ('kernel starts', c.get('kernel_start_states', 0))]
    return cov, ['dyadic penalties: the 1e-6 tolerance is never approached by legitimate arithmetic'], guards

"""C01 — Kemeny score equals the generalized pairwise-penalty definition."""
from .. import spaces, refmodel, harness
from ..harness import Ctx, watchdog

ID = 'C01'
FOREIGN = 9  # abstract id of an element that is in no input ranking

_lib = {}


def plan(tier, seed):
    alt = spaces.label_choices(seed, 1)[0]
    blocks = []
    if tier == 'quick':
        blocks = [(3, 2, 'all', 'ints'), (2, 3, 'all', 'ints'), (4, 1, 'all', 'ints'), (3, 2, 'core', alt),
                  (1, 4, 'all', 'ints'), (3, 1, 'sch01', 'ints'), (2, 2, 'sch01', 'ints')]
    else:
        blocks = [(4, 2, 'core', 'ints'), (3, 3, 'all', 'ints'), (5, 1, 'core', 'ints'), (3, 2, 'all', alt),
                  (4, 1, 'all', alt), (2, 4, 'all', 'ints'), (3, 2, 'sch01', 'ints'), (1, 5, 'all', 'ints')]
    shards = []
    expected = 0
    for (n, m, schemes, lab) in blocks:
        total = spaces.SWO_COUNT[n] ** m
        k = max(1, min(64, total // 20))
        for s in range(k):
            shards.append({'n': n, 'm': m, 'schemes': schemes, 'labels': lab, 'shard': s, 'nshards': k})
        expected += total - 1
    return [{'name': 'score', 'cfg': {}, 'shards': shards, 'expected_cases': expected}]


def init_worker(cfg):
    harness.import_library(False)
    from corankco.kemeny_score_computation import KemenyComputingFactory, InvalidRankingsForComputingDistance
    _lib['K'] = KemenyComputingFactory
    _lib['Exc'] = InvalidRankingsForComputingDistance
    _lib['sch01'] = spaces.schemes_over([0, 1])


def scheme_list(kind):
    if kind == 'all':
        return [s for _, s in spaces.SCHQ]
    if kind == 'core':
        return [spaces.POSITIONAL, spaces.UNIFYING, spaces.PSEUDO_05, spaces.B3LTB4]
    if kind == 'sch01':
        return _lib['sch01']
    raise harness.HarnessError(kind)


_cand_cache = {}


def candidates(universe, labels_name, lab):
    """(complete candidates, incomplete candidates) as lists of (abstract, Ranking)."""
    from ..lib import mk_ranking, typed_labels
    lab = typed_labels(lab, universe)     # a candidate is written with the element type the dataset has
    key = (universe, labels_name, tuple(sorted(lab.items())))
    if key in _cand_cache:
        return _cand_cache[key]
    comp = [c for c in spaces.weak_orders(universe)] + [c for c in spaces.weak_orders(universe + (FOREIGN,))]
    uset = set(universe)
    inc = []
    for sub in spaces.subsets(universe + (FOREIGN,)):
        if uset <= set(sub):
            continue
        inc.extend(spaces.weak_orders(sub))
    res = ([(c, mk_ranking(c, lab)) for c in comp], [(c, mk_ranking(c, lab)) for c in inc])
    _cand_cache[key] = res
    return res


def labels_of(name, n):
    from ..lib import labels_for
    labs = list(labels_for(name, n))
    lab = dict(enumerate(labs))
    lab[FOREIGN] = 'zz_foreign' if isinstance(labs[0], str) and not labs[0].isdigit() else 777
    return lab


def check_case(ctx, ds, labels_name, n, schemes, only=None):
    from ..lib import mk_dataset, mk_scheme
    lab = labels_of(labels_name, n)
    universe = spaces.universe_of(ds)
    dataset = mk_dataset(ds, lab)
    comp, inc = candidates(universe, labels_name, lab)
    facs = [(s, _lib['K'](mk_scheme(s))) for s in schemes]
    for c, cr in comp:
        if only is not None and c != only:
            continue
        ctx.cases += 1
        s1, s2 = refmodel.ref_pair_counts(c, ds)
        if sum(1 for v in s1 + s2 if v) >= 2:
            ctx.nontrivial += 1
        for s, fac in facs:
            exp = refmodel.ref_score(c, ds, s[0], s[1])
            ctx.evals += 1
            try:
                with watchdog(30):
                    got = fac.get_kemeny_score(cr, dataset)
            except Exception as e:
                ctx.violation('score-raises', case(ds, labels_name, n, s, c), None, exp, exc=e)
                continue
            try:
                gotf = float(got)
            except Exception:
                ctx.violation('score-not-a-number', case(ds, labels_name, n, s, c), repr(got), exp)
                continue
            if not abs(gotf - exp) <= 1e-9:
                ctx.violation('score-mismatch', case(ds, labels_name, n, s, c), gotf, exp,
                              message='reference pair counters ordered=%r tied=%r' % (s1, s2))
            ctx.outcome((tuple(s1[1:]), s2[0] + s2[1], s2[3] + s2[4], s2[5]))
    # refusal of incomplete candidates (scheme independent: one scheme suffices, two are run)
    for c, cr in inc:
        if only is not None and c != only:
            continue
        ctx.cases += 1
        for s, fac in facs[:2]:
            ctx.evals += 1
            try:
                with watchdog(30):
                    got = fac.get_kemeny_score(cr, dataset)
                ctx.violation('incomplete-candidate-scored', case(ds, labels_name, n, s, c), repr(got),
                              'InvalidRankingsForComputingDistance')
            except _lib['Exc']:
                ctx.count('refusals')
            except Exception as e:
                ctx.violation('incomplete-candidate-wrong-exception', case(ds, labels_name, n, s, c), None,
                              'InvalidRankingsForComputingDistance', exc=e)
    ctx.sample({'dataset': ds, 'labels': labels_name, 'n_candidates': len(comp), 'n_incomplete_candidates': len(inc)})


def case(ds, labels_name, n, s, c):
    return {'cfg': {}, 'dataset': ds, 'labels': labels_name, 'n': n, 'scheme': s, 'candidate': c}


def histories(ctx, ds0, lname, n, schemes):
    """one KemenyComputingFactory scores a candidate against a dataset OBJECT, the object is then mutated in place
    (element removed / empty rankings removed), and the SAME factory scores every candidate of the new universe
    against the SAME object: scores and refusals must be those of the mutated dataset."""
    from ..lib import mk_scheme, mk_ranking, mutation_histories, prepare_mutated, typed_labels
    lab0 = labels_of(lname, n)
    for what, after in mutation_histories(ds0):
        uni0 = spaces.universe_of(ds0)
        universe = spaces.universe_of(after)
        lab = typed_labels(lab0, universe)          # element type after the mutation
        for s in schemes:
            fac = _lib['K'](mk_scheme(s))
            first = mk_ranking((tuple(uni0),), typed_labels(lab0, uni0))
            d = prepare_mutated(ds0, lab0, what, warm=lambda dd: fac.get_kemeny_score(first, dd))
            for c in spaces.weak_orders(universe):
                cr = mk_ranking(c, lab)
                exp = refmodel.ref_score(c, after, s[0], s[1])
                cs = dict(case(after, lname, n, s, c), mutated_in_place_from=[ds0, what])
                ctx.evals += 1
                try:
                    got = float(fac.get_kemeny_score(cr, d))
                except Exception as e:
                    ctx.violation('score-raises-after-the-dataset-was-mutated', cs, None, exp, exc=e)
                    break
                if not abs(got - exp) <= 1e-9:
                    ctx.violation('score-mismatch-after-the-dataset-was-mutated', cs, got, exp)
                    break
            ctx.count('histories_factory_reused_across_a_mutation')


def run_shard(sh):
    ctx = Ctx(ID)
    schemes = scheme_list(sh['schemes'])
    nds = 0
    for index, ds in spaces.ds_iter_strided(sh['n'], sh['m'], sh['shard'], sh['nshards']):
        nds += 1
        before = ctx.cases
        check_case(ctx, ds, sh['labels'], sh['n'], schemes)
        if sh['schemes'] == 'all' and sh['n'] == 3 and sh['m'] == 2:
            histories(ctx, ds, sh['labels'], sh['n'], [spaces.UNIFYING, spaces.POSITIONAL])
        ctx.count('candidate_cases', ctx.cases - before)
        ctx.cases = before + 1  # "cases" for the closed-form check = datasets; candidates counted separately
        if not spaces.is_complete(ds):
            ctx.count('incomplete_datasets')
        if spaces.has_ties(ds):
            ctx.count('datasets_with_ties')
        if any(len(r) == 0 for r in ds):
            ctx.count('datasets_with_empty_ranking')
    return ctx.result()


def _tt(x):
    return tuple(tuple(b) for b in x)


def replay(ctx, c):
    if c.get('mutated_in_place_from'):
        ds0 = tuple(_tt(r) for r in c['mutated_in_place_from'][0])
        histories(ctx, ds0, c['labels'], c['n'], [(tuple(c['scheme'][0]), tuple(c['scheme'][1]))])
        return
    ds = tuple(_tt(r) for r in c['dataset'])
    s = (tuple(c['scheme'][0]), tuple(c['scheme'][1]))
    check_case(ctx, ds, c['labels'], c['n'], [s, s], only=_tt(c['candidate']))


def summarize(tier, seed, merged, phases):
    cov = {
        'rule': 'every dataset of the listed DS(n,m) blocks (ordered tuples of all rankings with ties of all subsets, '
                'incl. empty rankings) x every candidate in WO(U) and WO(U+foreign) x scheme list; plus every '
                'candidate missing a dataset element (must be refused). states = datasets; candidate_cases counter = '
                '(dataset,candidate) pairs; transitions = get_kemeny_score executions. non-trivial = (dataset, '
                'candidate) pair with >= 2 non-zero pair counters in the reference',
        'bounds': 'quick: DS(3,2), DS(2,3), DS(4,1), DS(1,4) with all 16 SCHq schemes + DS(3,2) under a seed-chosen '
                  'label presentation; thorough: DS(4,2), DS(5,1) on 4 schemes incl. positional, DS(3,3), DS(2,4), '
                  'DS(3,2) on all 96 schemes over {0,1}',
        'oracle': 'ref_score (pair-by-pair definition); positional scheme base 64 makes one equality decide all 8 '
                  'observable counters',
    }
    guards = [('incomplete datasets', merged['counters'].get('incomplete_datasets', 0)),
              ('datasets with ties', merged['counters'].get('datasets_with_ties', 0)),
              ('refusals', merged['counters'].get('refusals', 0)),
              ('distinct counter vectors', len(merged['outcomes']) > 10)]
    assumptions = ['penalties are dyadic rationals so float sums are exact', 'n <= 5 elements (+1 foreign), m <= 5']
    return cov, assumptions, guards

"""C12 — Borda orders elements by mean positional score, per the documented variants."""
from .. import spaces, refmodel, harness
from ..harness import Ctx, watchdog
from ..lib import ds_shards, ds_expected, tt, scheme_of, EarlierResults

ID = 'C12'
_lib = {}


def scale(s, k):
    return (tuple(x * k for x in s[0]), tuple(x * k for x in s[1]))


BASES = [('unifying', spaces.UNIFYING), ('unifying', spaces.UNIFYING_05), ('induced', spaces.INDUCED),
         ('induced', spaces.INDUCED_05)]
ACCEPTED = [(fam, scale(s, k)) for fam, s in BASES for k in (1, 2, 3, 0.5)]
OTHERS = [spaces.PSEUDO, spaces.PSEUDO_05, spaces.EXTENDED, spaces.ZERO_HEAVY, spaces.UNIF_B_OTHER_T,
          spaces.IND_B_OTHER_T, spaces.B3LTB4, spaces.POSITIONAL, spaces.B5GTT5,
          ((0., 1., .5, 0., 1., 1.), (.5, .5, 0., .5, .5, 0.)),      # unifying with a mixed p: not a multiple
          ((0., 1., 1., 0., 1., 1.), (1., 1., 0., 1., 1., 1.))]      # unifying except T5


def family_of(s):
    for fam, b in BASES:
        if refmodel.proportional(s, b):
            return fam
    return None


def plan(tier, seed):
    alt = spaces.label_choices(seed, 1)[0]
    if tier == 'quick':
        blocks = [dict(n=3, m=2, labels='ints', histories=True), dict(n=2, m=3, labels='ints', histories=True), dict(n=4, m=1, labels='ints'),
                  dict(n=3, m=2, labels=alt), dict(n=4, m=2, labels='ints', schemes='core')]
    else:
        blocks = [dict(n=4, m=2, labels='ints'), dict(n=3, m=3, labels='ints'), dict(n=2, m=4, labels='ints'),
                  dict(n=5, m=1, labels='ints'), dict(n=4, m=2, labels=alt, schemes='core'),
                  dict(n=3, m=4, labels='ints', schemes='core')]
    shards = ds_shards(blocks)
    if tier == 'thorough':
        # profile family: every dataset of exactly 15 rankings over 3 elements made of <= 3 ranking types
        for t1 in range(spaces.SWO_COUNT[3]):
            shards.append({'kind': 'profile15', 't1': t1})
    return [{'name': 'borda', 'cfg': {}, 'shards': shards}]


def init_worker(cfg):
    harness.import_library(False)
    from corankco.algorithms.borda.borda import BordaCount
    from corankco.algorithms.rank_aggregation_algorithm import ScoringSchemeNotHandledException
    _lib.update(A=BordaCount, Refuse=ScoringSchemeNotHandledException)


def check_case(ctx, ds, lname, n, schemes, flags=((True, False), (False, False), (True, True)), dataset_obj=None,
               alg_objs=None, origin=None, scheme_objs=None):
    from ..lib import mk_dataset, mk_scheme, labels_for, Back, wellformed
    labels = labels_for(lname, n)
    universe = spaces.universe_of(ds)
    dataset = dataset_obj if dataset_obj is not None else mk_dataset(ds, labels)
    back = Back(labels, universe)
    complete = spaces.is_complete(ds)
    for s in schemes:
        fam = family_of(s)
        scheme = scheme_objs[s] if scheme_objs and s in scheme_objs else mk_scheme(s)
        for ubi in (False, True):
            if fam is None and not complete:
                want = None
            else:
                want = refmodel.ref_borda(ds, universe, fam or 'induced', ubi)
            for one, reused in flags:
                case = {'cfg': {}, 'dataset': ds, 'labels': lname, 'n': n, 'scheme': s, 'use_bucket_id': ubi, 'one': one,
                        'reused_object': reused, 'mutated_in_place_from': origin}
                ctx.evals += 1
                if alg_objs is not None:
                    alg = alg_objs[ubi]
                elif reused:
                    case['reused_after'] = list(_lib.setdefault('hist', [])[-2:])
                    _lib['hist'].append({'dataset': ds, 'scheme': s})
                    del _lib['hist'][:-2]
                    alg = _lib.setdefault(('inst', ubi), _lib['A'](use_bucket_id=ubi))
                    ctx.count('executions_on_a_reused_algorithm_object')
                else:
                    alg = _lib['A'](use_bucket_id=ubi)
                try:
                    with watchdog(30):
                        c = alg.compute_consensus_rankings(dataset, scheme, one)
                except _lib['Refuse'] as e:
                    if want is not None:
                        ctx.violation('borda-refuses-an-accepted-input', case, 'ScoringSchemeNotHandledException', want)
                    else:
                        ctx.count('refusals')
                    continue
                except Exception as e:
                    ctx.violation('borda-raises', case, None, want, exc=e)
                    continue
                if want is None:
                    ctx.violation('borda-accepts-incomplete-data-with-foreign-scheme', case,
                                  str(c.consensus_rankings), 'ScoringSchemeNotHandledException')
                    continue
                try:
                    _ = c.kemeny_score   # the lazy score is written once; snapshots are taken after it
                except Exception:
                    pass                 # a consensus that cannot be scored is reported by the structural checks below
                _lib.setdefault('earlier', EarlierResults()).check_and_remember(ctx, ('borda', ubi, reused), c, case)
                if len(c.consensus_rankings) != 1:
                    ctx.violation('borda-number-of-rankings', case, len(c.consensus_rankings), 1)
                    continue
                bad = wellformed(c.consensus_rankings[0], back, universe)
                if bad:
                    ctx.violation('borda-malformed', case, bad, want)
                    continue
                got = back.ranking(c.consensus_rankings[0])
                if got != want:
                    ctx.violation('borda-ranking', case, got, want)
            ctx.cases += 1
            if want is not None and not complete and len(want) > 1:
                ctx.nontrivial += 1
            if want is not None and fam is not None and not complete:
                alt_fam = 'induced' if fam == 'unifying' else 'unifying'
                if refmodel.ref_borda(ds, universe, alt_fam, ubi) != want:
                    ctx.count('cases_where_the_family_matters')
            if want is not None and refmodel.ref_borda(ds, universe, fam or 'induced', not ubi) != want:
                ctx.count('cases_where_the_tie_variant_matters')
            ctx.outcome((want, fam))
    ctx.sample({'dataset': ds, 'labels': lname, 'schemes': len(schemes)})


def scheme_list(kind):
    if kind == 'core':
        return [ACCEPTED[0][1], ACCEPTED[7][1], ACCEPTED[8][1], ACCEPTED[14][1], spaces.PSEUDO, spaces.UNIF_B_OTHER_T]
    return [s for _, s in ACCEPTED] + OTHERS


SEQ = [spaces.INDUCED, spaces.UNIFYING, spaces.UNIFYING_05, spaces.INDUCED_05, spaces.UNIFYING, spaces.PSEUDO, spaces.INDUCED]


def sequences(ctx, ds, lname, n):
    """one long-lived object per variant serving, for EVERY dataset of the shard, the scheme sequence induced,
    unifying, unifying p=.5, induced p=.5, unifying, pseudo (refused on incomplete data), induced: the answer must not
    depend on what the object was asked before (on this dataset or the previous one)."""
    from ..lib import mk_dataset, labels_for
    algs = {ubi: _lib.setdefault(('seq', ubi), _lib['A'](use_bucket_id=ubi)) for ubi in (False, True)}
    d = mk_dataset(ds, labels_for(lname, n))      # ONE dataset object for the whole sequence
    for s in SEQ:
        check_case(ctx, ds, lname, n, [s], flags=((True, True),), alg_objs=algs, origin=['sequence', 'see SEQ'], dataset_obj=d)
        ctx.count('executions_in_scheme_sequences_on_one_object')


def histories(ctx, ds0, lname, n, schemes):
    """run -> mutate in place -> run again on the SAME dataset object and the SAME algorithm objects."""
    from ..lib import labels_for, mutation_histories, prepare_mutated, mk_scheme
    labels = labels_for(lname, n)
    for what, after in mutation_histories(ds0):
        for s in schemes:
            algs = {ubi: _lib['A'](use_bucket_id=ubi) for ubi in (False, True)}
            so = mk_scheme(s)

            def warm(dd):
                for a in algs.values():
                    try:
                        a.compute_consensus_rankings(dd, so, True)
                    except Exception:
                        pass
            d = prepare_mutated(ds0, labels, what, warm=warm)
            check_case(ctx, after, lname, n, [s], flags=((True, True),), dataset_obj=d, alg_objs=algs, origin=[ds0, what],
                       scheme_objs={s: so})
            ctx.count('executions_after_run_mutate_on_the_same_objects')


def run_profile(ctx, sh):
    """all datasets t1^a t2^b t3^c with a+b+c = 15, a >= 1 (t1 fixed by the shard, t2 <= t3 as indices):
    means with denominators up to 15, where float shortcuts such as total * (1.0 / count) go wrong."""
    swo = spaces.sub_weak_orders(3)
    t1 = swo[sh['t1']]
    schemes = [spaces.INDUCED, spaces.UNIFYING]
    n = 0
    for i2 in range(sh['t1'], len(swo)):
        for i3 in range(i2, len(swo)):
            for a in range(1, 16):
                for b in range(0, 16 - a):
                    c = 15 - a - b
                    if (i2 == sh["t1"] and b > 0) or (i3 == i2 and c > 0):
                        continue
                    ds = (t1,) * a + (swo[i2],) * b + (swo[i3],) * c
                    if not spaces.universe_of(ds):
                        continue
                    n += 1
                    check_case(ctx, ds, 'ints', 3, schemes, flags=((True, False),))
    ctx.count('profile_datasets', n)
    ctx.cases = n


def run_shard(sh):
    ctx = Ctx(ID)
    if sh.get('kind') == 'profile15':
        run_profile(ctx, sh)
        return ctx.result()
    schemes = scheme_list(sh.get('schemes'))
    for index, ds in spaces.ds_iter_strided(sh['n'], sh['m'], sh['shard'], sh['nshards']):
        before = ctx.cases
        check_case(ctx, ds, sh['labels'], sh['n'], schemes)
        if sh.get('histories'):
            sequences(ctx, ds, sh['labels'], sh['n'])
            histories(ctx, ds, sh['labels'], sh['n'], [spaces.UNIFYING, spaces.INDUCED_05])
        ctx.count('dataset_scheme_variant_cases', ctx.cases - before)
        ctx.cases = before + 1
    return ctx.result()


def replay(ctx, c):
    if c.get('reused_after'):
        for k in [k for k in _lib if isinstance(k, tuple) and k and k[0] in ('inst', 'seq')] + ['hist', 'earlier']:
            _lib.pop(k, None)
        scratch = Ctx(ID)
        for prev in c['reused_after']:
            check_case(scratch, tt(prev['dataset']), c['labels'], c['n'], [scheme_of(prev['scheme'])])
    if c.get('mutated_in_place_from') and c['mutated_in_place_from'][0] == 'sequence':
        sequences(ctx, tt(c['dataset']), c['labels'], c['n'])
    elif c.get('mutated_in_place_from'):
        histories(ctx, tt(c['mutated_in_place_from'][0]), c['labels'], c['n'], [scheme_of(c['scheme'])])
    else:
        check_case(ctx, tt(c['dataset']), c['labels'], c['n'], [scheme_of(c['scheme'])])


def summarize(tier, seed, merged, phases):
    c = merged['counters']
    cov = {'rule': 'every dataset of the DS blocks (all permutations of rankings and all relabellings are in the space) '
                   'x {unifying, unifying p=.5, induced, induced p=.5} x multiples {1,2,3,.5} + 11 foreign schemes '
                   '(incl. same-B-other-T) x both use_bucket_id values x both flags; oracle: reference Borda in exact '
                   'Fractions (unifying family: unranked = one last bucket; induced: skipped; complete data: any scheme), '
                   'groups in increasing mean, tied iff equal; incomplete + foreign scheme must raise '
                   'ScoringSchemeNotHandledException. non-trivial = incomplete dataset, accepted, >1 bucket'}
    guards = [('refusals', c.get('refusals', 0)), ('family matters', c.get('cases_where_the_family_matters', 0)),
              ('tie variant matters', c.get('cases_where_the_tie_variant_matters', 0))]
    return cov, ['accepted families: positive multiples of the four documented schemes (exact proportionality on B and T)'], guards

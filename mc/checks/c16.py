"""C16 — Ranking/Dataset views stay consistent through every construction and mutation.
Explicit-state search over the REAL mutators: a state is the event history from an initial dataset;
every state is rebuilt on a fresh object, canonicalised, and all views + derived datasets are checked."""
import os
from collections import deque
from .. import spaces, refmodel, harness
from ..harness import Ctx, watchdog

ID = 'C16'
_lib = {}
LABELS = {
    'ints': [0, 1, 2, 3],
    'letters': ['a', 'b', 'c', 'd'],
    'mixed': ['a', '1', '2', '3'],        # removing 'a' flips the dataset to ints
    'digitstr': ['1', '2', '3', '10'],    # homogenised to ints at construction
    'mixed_last': ['7', '8', 'x9', '11'],
}
RATES = [0.0, 1 / 3 + 1e-9, 0.5, 2 / 3 + 1e-9, 1.0, 1.0 + 1e-9]


def plan(tier, seed):
    shards = []
    blocks = [(3, 2), (2, 3)] if tier == 'quick' else [(4, 2), (3, 3), (2, 4)]
    labelsets = list(LABELS) if tier != 'quick' else ['ints', 'letters', 'mixed', 'digitstr', 'mixed_last']
    for (n, m) in blocks:
        total = spaces.SWO_COUNT[n] ** m
        k = max(1, min(48, total // 10))
        for ls in labelsets:
            if tier == 'thorough' and (n, m) == (4, 2) and ls in ('letters', 'digitstr'):
                continue
            for s in range(k):
                shards.append({'n': n, 'm': m, 'labels': ls, 'shard': s, 'nshards': k})
    return [{'name': 'mutators', 'cfg': {}, 'shards': shards}]


def init_worker(cfg):
    harness.import_library(False)
    from corankco.dataset import Dataset, EmptyDatasetException
    from corankco.ranking import Ranking
    from corankco.element import Element
    _lib.update(D=Dataset, R=Ranking, E=Element, Empty=EmptyDatasetException,
                tmp=cfg.get('worker_tmp') or cfg.get('tmpdir'), counter=0)


def abstract_of(d, by_str):
    """abstract rankings (tuple of tuples of sorted tuples) of a library dataset, empties included."""
    return tuple(tuple(tuple(sorted(by_str[str(e.value)] for e in b)) for b in r.buckets) for r in d.rankings)


def non_empty(ds):
    return tuple(r for r in ds if len(r) > 0)


def apply_event(d, ev, by_str):
    """apply one event to the real object."""
    kind = ev[0]
    if kind == 'rm':
        _, subset, mode = ev
        # the elements as they occur in the rankings (d.universe itself is under test)
        uni = {by_str[str(e.value)]: e for r in d.rankings for b in r.buckets for e in b}
        if mode == 'elem':
            d.remove_elements({uni[x] for x in subset})
        else:
            d.remove_elements({uni[x].value for x in subset})
    elif kind == 'rate':
        d.remove_elements_rate_presence_lower_than(ev[1])
    elif kind == 'rmempty':
        d.remove_empty_rankings()
    else:
        raise harness.HarnessError(ev)


def ref_event(ds, ev):
    """reference successor (non-empty rankings only; None = EmptyDatasetException expected)."""
    kind = ev[0]
    if kind == 'rm':
        new = refmodel.remove_elements(ds, ev[1])
    elif kind == 'rate':
        uni = spaces.universe_of(ds)
        removed = [x for x in uni if sum(1 for r in ds if any(x in b for b in r)) / len(ds) < ev[1]]
        new = refmodel.remove_elements(ds, removed)
    else:
        new = non_empty(ds)
    if len(new) == 0:
        return None
    return new


def enabled_events(ds):
    uni = spaces.universe_of(ds)
    evs = []
    for s in spaces.subsets(uni, 1):
        evs.append(('rm', s, 'elem'))
        evs.append(('rm', s, 'raw'))
    for t in RATES:
        evs.append(('rate', t))
    evs.append(('rmempty',))
    return evs


def observe(d):
    """read every view and derived object once (results discarded): whatever the object caches is now populated,
    so a later mutation is applied to an object that has ALREADY been looked at."""
    try:
        d.unified_rankings()
        d.unified_dataset()
        d.get_positions()
        d.get_bucket_ids()
        d.universe, d.nb_elements, d.mapping_elem_id, d.mapping_id_elem, d.is_complete, d.without_ties
        str(d), d.description()
        for r in d.rankings:
            r.positions, r.domain, r.nb_elements
        uni = list(d.universe)
        if uni:
            d.sub_problem_from_elements({uni[0]})
            d.sub_problem_from_ids({0})
    except Exception:
        pass   # failures of the views themselves are reported by check_state


def build(ds0, labels, history, by_str, observed=False):
    """fresh real object, events replayed (optionally every view is read before each event)."""
    from ..lib import mk_dataset
    d = mk_dataset(ds0, labels, name='c16')
    for ev in history:
        if observed:
            observe(d)
        apply_event(d, ev, by_str)
    return d


def check_state(ctx, d, ds, by_str, case):
    """all views and derived objects of a state; ds = abstract rankings of d (empties included)."""
    from ..lib import dataset_views, ranking_views
    D, E = _lib['D'], _lib['E']
    ok = True

    def viol(clause, obs=None, exp=None, exc=None):
        nonlocal ok
        ok = False
        ctx.violation(clause, case, obs, exp, exc=exc)
    try:
        bad = dataset_views(d)
    except Exception as e:
        viol('views-raise', exc=e)
        return False
    ctx.evals += 1
    if bad:
        viol('dataset-views', bad)
        return False
    uni = spaces.universe_of(ds)
    uni_el = {by_str[str(e.value)]: e for r in d.rankings for b in r.buckets for e in b}
    # unification
    try:
        ctx.evals += 2
        ur = d.unified_rankings()
        ud = d.unified_dataset()
    except Exception as e:
        viol('unification-raises', exc=e)
        return False
    want_u = tuple(refmodel.canon(refmodel.unify(r, uni)) for r in ds)
    got_u = tuple(tuple(tuple(sorted(by_str[str(e.value)] for e in b)) for b in r.buckets) for r in ur)
    if got_u != want_u:
        viol('unified-rankings-wrong', got_u, want_u)
    else:
        for i, r in enumerate(ur):
            b2 = ranking_views(r)
            if b2:
                viol('unified-ranking-views', 'ranking %d: %s' % (i, b2))
                break
        if ur is d.rankings or any(a is b for a in ur for b in d.rankings):
            viol('unified-rankings-alias-the-dataset')
    try:
        b3 = dataset_views(ud)
    except Exception as e:
        viol('unified-dataset-views-raise', exc=e)
        b3 = None
    if b3:
        viol('unified-dataset-views', b3)
    elif abstract_of(ud, by_str) != want_u or not ud.is_complete:
        viol('unified-dataset-wrong', [abstract_of(ud, by_str), ud.is_complete], [want_u, True])
    # the dataset itself must not have been touched by unification
    if abstract_of(d, by_str) != ds:
        viol('unification-modified-the-dataset', abstract_of(d, by_str), ds)
    # projections
    for K in spaces.subsets(uni, 1):
        want_p = tuple(refmodel.canon(r) for r in refmodel.project(ds, K))
        for route in ('elements', 'ids'):
            ctx.evals += 1
            try:
                if route == 'elements':
                    sp = d.sub_problem_from_elements({uni_el[x] for x in K})
                else:
                    sp = d.sub_problem_from_ids({d.mapping_elem_id[uni_el[x]] for x in K})
                b4 = dataset_views(sp)
            except Exception as e:
                viol('projection-raises', {'K': K, 'route': route}, exc=e)
                continue
            if b4:
                viol('projection-views', {'K': K, 'route': route, 'why': b4})
            elif abstract_of(sp, by_str) != want_p:
                viol('projection-wrong', {'K': K, 'route': route, 'got': abstract_of(sp, by_str)}, want_p)
    # building a Consensus from the dataset's own rankings (no dataset attached) must not disturb their views
    try:
        from corankco.consensus import Consensus
        ctx.evals += 1
        try:
            cons = Consensus(list(d.rankings))
            cons.nb_elements, cons.elements, str(cons), cons.description()
        except Exception:
            # building a multi-ranking Consensus by hand is not one of the properties (it fails today when an
            # element first appears in a ranking whose index is >= the number of elements); only its effect on the
            # rankings is judged
            ctx.count('consensus_from_rankings_not_constructible')
        bad = dataset_views(d)
        if bad:
            viol('views-changed-by-building-a-consensus-from-the-rankings', bad)
        if abstract_of(d, by_str) != ds:
            viol('dataset-changed-by-building-a-consensus-from-the-rankings', abstract_of(d, by_str), ds)
    except Exception as e:
        viol('consensus-from-rankings-raises', exc=e)
    return ok


def check_outside_projections(ctx, d, ds, ds0, labels, by_str, case):
    """projection on a kept set chosen BEFORE the removals: it may contain elements that are no longer in the
    dataset; the result is the projection on the part that still is (an empty result is the documented exception)."""
    from ..lib import dataset_views
    E = _lib['E']
    uni0 = spaces.universe_of(ds0)
    uni = set(spaces.universe_of(ds))
    cur = {by_str[str(e.value)]: e for r in d.rankings for b in r.buckets for e in b}
    typ = next(iter(cur.values())).type if cur else str
    for K in spaces.subsets(uni0, 1):
        if set(K) <= uni:
            continue
        keep = set()
        for x in K:
            keep.add(cur[x] if x in cur else E(typ(labels[x])) if (typ is str or str(labels[x]).isdigit()) else E(str(labels[x])))
        want = tuple(refmodel.canon(r) for r in refmodel.project(ds, set(K) & uni))
        ctx.evals += 1
        try:
            sp = d.sub_problem_from_elements(keep)
        except _lib['Empty']:
            if len(want) > 0:
                ctx.violation('projection-raises', dict(case, K=K), 'EmptyDatasetException', want)
            continue
        except Exception as e:
            ctx.violation('projection-raises', dict(case, K=K), None, want, exc=e)
            continue
        try:
            bad = dataset_views(sp)
            got = abstract_of(sp, by_str)
        except Exception as e:
            ctx.violation('projection-views', dict(case, K=K), None, want, exc=e)
            continue
        if bad:
            ctx.violation('projection-views', dict(case, K=K), bad, None)
        elif got != want:
            ctx.violation('projection-wrong', dict(case, K=K, route='kept set chosen before the removal'), got, want)
        ctx.count('projections_on_kept_sets_reaching_outside_the_universe')


def fresh_path():
    _lib['counter'] += 1
    return os.path.join(_lib['tmp'], 'c16_%d_%d.txt' % (os.getpid(), _lib['counter']))


def check_routes(ctx, ds0, labels, by_str, case):
    """other constructor routes give the same dataset with consistent views."""
    from ..lib import dataset_views, raw_ranking
    D, R = _lib['D'], _lib['R']
    routes = {}
    ctx.evals += 2
    try:
        routes['from_raw_list'] = D.from_raw_list([raw_ranking(r, labels) for r in ds0], name='x')
        p = fresh_path()
        with open(p, 'w') as f:
            for r in ds0:
                f.write('[' + ', '.join('{' + ', '.join(str(labels[x]) for x in b) + '}' for b in r) + ']\n')
        try:
            routes['from_file'] = D.from_file(p)
        finally:
            os.unlink(p)
    except Exception as e:
        ctx.violation('constructor-route-raises', case, None, None, exc=e)
        return
    for name, d in routes.items():
        bad = dataset_views(d)
        if bad:
            ctx.violation('constructor-route-views', case, {name: bad}, None)
        elif abstract_of(d, by_str) != ds0 and not (name == 'from_file' and non_empty(abstract_of(d, by_str)) == non_empty(ds0)):
            ctx.violation('constructor-route-differs', case, {name: abstract_of(d, by_str)}, ds0)


def explore_from(ctx, ds0, lname, n, only_history=None):
    labels = LABELS[lname][:n] if n <= 4 else None
    by_str = {str(l): i for i, l in enumerate(labels)}
    base_case = {'cfg': {}, 'dataset': ds0, 'labels': lname, 'n': n}
    try:
        d0 = build(ds0, labels, [], by_str)
    except Exception as e:
        ctx.violation('construction-raises', base_case, None, None, exc=e)
        return
    if abstract_of(d0, by_str) != ds0:
        ctx.violation('construction-differs', base_case, abstract_of(d0, by_str), ds0)
        return
    check_routes(ctx, ds0, labels, by_str, base_case)
    init = (ds0,)
    seen = {ds0}
    frontier = deque([[]])
    states_ok = {}
    if check_state(ctx, d0, ds0, by_str, dict(base_case, history=[])):
        pass
    nstates, ntrans = 1, 0
    while frontier:
        hist = frontier.popleft()
        try:
            cur = build(ds0, labels, hist, by_str)
        except Exception as e:
            raise harness.HarnessError("replay of an already explored history failed: %r %r" % (hist, e))
        cur_ds = abstract_of(cur, by_str)
        for ev in enabled_events(cur_ds):
            case = dict(base_case, history=hist + [ev])
            ntrans += 1
            ctx.evals += 1
            d = build(ds0, labels, hist, by_str)
            want = ref_event(cur_ds, ev)
            try:
                with watchdog(20):
                    apply_event(d, ev, by_str)
            except _lib['Empty'] as e:
                if want is not None:
                    ctx.violation('unexpected-empty-dataset-exception', case, None, want, exc=e)
                else:
                    ctx.count('terminal_edges_empty_dataset')
                continue
            except Exception as e:
                ctx.violation('mutator-raises', case, None, want, exc=e)
                continue
            if want is None:
                ctx.violation('missing-empty-dataset-exception', case, str(d), 'EmptyDatasetException')
                continue
            try:
                got = abstract_of(d, by_str)
            except Exception as e:
                ctx.violation('state-unreadable', case, None, want, exc=e)
                continue
            if tuple(refmodel.canon(r) for r in non_empty(got)) != tuple(refmodel.canon(r) for r in want):
                ctx.violation('mutator-disagrees-with-reference', case, got, want)
                continue
            if d.name != 'c16':
                ctx.violation('mutator-changed-name', case, d.name, 'c16')
            if len(non_empty(got)) != len(got):
                ctx.count('states_keeping_empty_rankings')
            if ev[0] == 'rm' and lname in ('mixed', 'mixed_last') and d.nb_elements > 0:
                t_before = set(e.type for e in cur.universe)
                t_after = set(e.type for e in d.universe)
                if t_before != t_after:
                    ctx.count('homogenisation_flips')
            # the same transition on an object whose views were all read before each mutation (stale caches)
            try:
                d2 = build(ds0, labels, hist, by_str, observed=True)
                observe(d2)
                apply_event(d2, ev, by_str)
                got2 = abstract_of(d2, by_str)
            except Exception as e:
                ctx.violation('mutator-raises-after-views-were-read', case, None, got, exc=e)
                got2 = None
            ctx.evals += 1
            if got2 is not None:
                if got2 != got:
                    ctx.violation('mutation-result-depends-on-earlier-reads', case, got2, got)
                else:
                    check_state(ctx, d2, got2, by_str, dict(case, views_read_before_each_mutation=True))
            if got not in seen:
                seen.add(got)
                nstates += 1
                check_state(ctx, d, got, by_str, case)
                check_outside_projections(ctx, d, got, ds0, labels, by_str, case)
                frontier.append(hist + [ev])
            else:
                # already-known state reached by another path: views must hold here too (differential)
                from ..lib import dataset_views
                try:
                    bad = dataset_views(d)
                except Exception as e:
                    ctx.violation('views-raise', case, None, None, exc=e)
                    bad = None
                if bad:
                    ctx.violation('dataset-views', case, bad, None)
    ctx.cases += nstates
    ctx.nontrivial += nstates - 1
    ctx.count('transitions', ntrans)
    ctx.outcome((nstates, ntrans))
    return nstates, ntrans


def run_shard(sh):
    ctx = Ctx(ID)
    last = None
    for index, ds in spaces.ds_iter_strided(sh['n'], sh['m'], sh['shard'], sh['nshards']):
        ds = tuple(refmodel.canon(r) for r in ds)
        last = (ds, explore_from(ctx, ds, sh['labels'], sh['n']))
        ctx.count('initial_datasets')
    if last:
        ctx.sample({'initial_dataset': last[0], 'labels': LABELS[sh['labels']][:sh['n']], 'closure': last[1],
                    'events': 'remove_elements(S) as Elements and raw values, 6 presence rates, remove_empty_rankings'})
    return ctx.result()


def replay(ctx, c):
    ds = tuple(tuple(tuple(b) for b in r) for r in c['dataset'])
    explore_from(ctx, ds, c['labels'], c['n'])


def summarize(tier, seed, merged, phases):
    c = merged['counters']
    cov = {
        'rule': 'explicit-state BFS to closure from every dataset of DS(3,2), DS(2,3) (thorough DS(4,2), DS(3,3), '
                'DS(2,4)) under 5 label sets (ints, letters, digit strings, two int/str mixes whose homogenisation flips '
                'after a removal); events: remove_elements(S) for every non-empty S (as Elements and as raw values), 6 '
                'presence-rate thresholds, remove_empty_rankings; each transition is executed on a fresh object rebuilt '
                'by replaying the history; in every state all views, unified rankings / dataset and both projection '
                'routes for every K are compared with the list-of-sets reference. states = distinct reachable dataset '
                'contents; transitions = mutator executions; search closed (frontier empty) for every start',
        'transitions_mutators': c.get('transitions', 0),
        'search_closed': True,
    }
    guards = [('terminal empty-dataset edges', c.get('terminal_edges_empty_dataset', 0)),
              ('homogenisation flips', c.get('homogenisation_flips', 0)),
              ('transitions', c.get('transitions', 0))]
    return cov, ['removing a non-member is not in the alphabet', 'empty rankings left behind by a mutator are tolerated: '
                 'agreement with the reference is on the non-empty rankings, all views are then re-derived from the '
                 'actual object'], guards

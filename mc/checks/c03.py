"""C03 — every algorithm returns a well-formed consensus over exactly the universe."""
from .. import spaces, refmodel, harness, algos, cross
from ..harness import Ctx
from ..lib import wellformed, ranking_views

ID = 'C03'
_lib = {}


def plan(tier, seed):
    alts = spaces.label_choices(seed, 2)
    if tier == 'quick':
        nr = dict(reuse=False)
        by_mode = {
            'absent': [dict(n=3, m=2, labels='ints', schemes='four', configs='fast'),
                       dict(n=3, m=2, labels='ints_rev', schemes='one', configs='fast', **nr),
                       dict(n=3, m=2, labels='letters', schemes='one_b', configs='fast', **nr),
                       dict(n=3, m=2, labels='mixed_strings', schemes='one', configs='fast', **nr),
                       dict(n=3, m=2, labels='digit_strings', schemes='one', configs='fast_det', **nr),
                       dict(n=3, m=2, labels=alts[0], schemes='one_b', configs='fast', **nr),
                       dict(n=2, m=3, labels='ints', schemes='two', configs='fast'),
                       dict(n=1, m=2, labels='ints', schemes='four', configs='all'),
                       dict(n=1, m=2, labels='letters', schemes='two', configs='all'),
                       dict(n=4, m=2, labels='ints', schemes='one_b', configs='fast_det', per=60),
                       dict(n=3, m=2, labels='ints', schemes='one', configs='cbc', per=6, **nr),
                       dict(n=2, m=3, labels='letters', schemes='one', configs='cbc', per=6, **nr),
                       dict(n=3, m=2, labels='ints', schemes='one', configs='fast_det', premutate=True, **nr),
                       dict(n=3, m=2, labels='mixed_strings', schemes='one', configs='fast_det', premutate=True, **nr),
                       dict(space='ext43', labels='mixed_strings', schemes='ext1', configs='parcons_fast', per=300, **nr),
                       dict(space='ext43', labels='mixed_zeros', schemes='ext1', configs='parcons_fast', per=300, **nr)],
            'absent_enum': [dict(n=3, m=2, labels='ints', schemes='two', configs='solver'),
                            dict(n=3, m=2, labels='letters_rev', schemes='one', configs='solver', **nr),
                            dict(n=3, m=2, labels='mixed_strings', schemes='one_b', configs='solver', **nr),
                            dict(n=2, m=3, labels='ints', schemes='one', configs='solver', **nr),
                            dict(space='ext43', labels='mixed_strings', schemes='ext1', configs='decomp', per=300, flags='one', **nr)],
            'stub': [dict(n=3, m=2, labels='ints', schemes='two', configs='solver'),
                     dict(n=3, m=2, labels='letters', schemes='one', configs='solver', **nr),
                     dict(n=3, m=2, labels='mixed_strings', schemes='one_b', configs='solver', **nr),
                     dict(n=2, m=3, labels='ints_rev', schemes='one', configs='solver', **nr),
                     dict(n=1, m=2, labels='ints', schemes='two', configs='all'),
                     dict(space='ext43', labels='mixed_zeros', schemes='ext1', configs='decomp', per=300, flags='one'),
                     dict(space='ext43', labels='ints', twin_labels='mixed_strings', schemes='ext1', configs='decomp', per=300,
                          reuse=True, flags='one')],
        }
    else:
        labs = ['ints', 'ints_rev', 'letters', 'digit_strings', 'mixed_strings', 'ints_collide', 'words']
        by_mode = {'absent': [], 'absent_enum': [], 'stub': []}
        for lab in labs:
            by_mode['absent'].append(dict(n=4, m=2, labels=lab, schemes='two' if lab != 'ints' else 'four',
                                          configs='fast_det', per=60))
            by_mode['absent'].append(dict(n=3, m=2, labels=lab, schemes='four', configs='fast'))
            by_mode['absent_enum'].append(dict(n=3, m=2, labels=lab, schemes='four', configs='solver'))
            by_mode['stub'].append(dict(n=3, m=2, labels=lab, schemes='four', configs='solver'))
        by_mode['absent'] += [dict(n=3, m=3, labels='ints', schemes='four', configs='fast', per=60),
                              dict(n=4, m=2, labels='ints', schemes='two', configs='fast', per=60),
                              dict(n=5, m=1, labels='letters', schemes='four', configs='fast'),
                              dict(n=1, m=3, labels='ints', schemes='four', configs='all'),
                              dict(n=3, m=2, labels='letters', schemes='four', configs='cbc', per=6),
                              dict(n=3, m=3, labels='ints', schemes='one', configs='cbc', per=30, maxk=256)]
        by_mode['absent_enum'] += [dict(n=4, m=2, labels='ints', schemes='four', configs='solver', per=60),
                                   dict(n=3, m=3, labels='letters', schemes='two', configs='solver', per=60)]
        by_mode['stub'] += [dict(n=4, m=2, labels='ints', schemes='four', configs='solver', per=60),
                            dict(n=3, m=3, labels='letters', schemes='two', configs='solver', per=60),
                            dict(n=5, m=1, labels='ints', schemes='four', configs='solver')]
    return cross.std_phases(by_mode)


def init_worker(cfg):
    mode = cfg['mode']
    algos.init_mode(mode)
    _lib['mode'] = mode
    allc = cross.select_configs(mode, lambda c: True)
    _lib['all'] = allc
    _lib['fast'] = [c for c in allc if 'fast' in c.tags]
    _lib['fast_det'] = [c for c in allc if 'fast' in c.tags and 'kwik' not in c.tags]
    _lib['cbc'] = [c for c in allc if 'cbc' in c.tags]
    _lib['solver'] = [c for c in allc if 'enum' in c.tags or 'cbc' in c.tags]
    _lib['decomp'] = [c for c in allc if ('enum' in c.tags or 'cbc' in c.tags) and ({'parcons', 'optimize', 'pulp'} & c.tags)]
    _lib['parcons_fast'] = [c for c in allc if 'fast' in c.tags and 'parcons' in c.tags]
    _lib['cplex'] = [c for c in allc if 'cplex' in c.tags or 'selector' in c.tags]
    from corankco.algorithms.exact.exactalgorithmbase import IncompatibleArgumentsException
    from corankco.consensus import Consensus
    _lib['Incompat'] = IncompatibleArgumentsException
    _lib['Consensus'] = Consensus


def refusal_justified(info):
    e = info.value
    if isinstance(e, _lib['Incompat']):
        return 'optimize' in info.cfg.tags and not info.one
    # scheme-related refusals: only on incomplete data, only for configurations built on Borda / PickAPerm,
    # only when the scheme is outside the family that algorithm documents
    if spaces.is_complete(info.ds):
        return False
    ok = False
    if 'needs_borda' in info.cfg.tags:
        ok |= not any(refmodel.proportional(info.s, b) for b in (spaces.UNIFYING, spaces.UNIFYING_05, spaces.INDUCED,
                                                                  spaces.INDUCED_05))
    if 'needs_pick' in info.cfg.tags:
        ok |= not refmodel.proportional(info.s, spaces.UNIFYING)
    return ok


def oracle(ctx, info):
    if info.status == 'refused':
        if refusal_justified(info):
            ctx.count('documented_refusals')
        else:
            ctx.violation('unjustified-refusal', info.case(), type(info.value).__name__, 'a consensus')
        return
    if info.status == 'timeout':
        ctx.violation('no-termination', info.case(), 'timeout', 'a consensus')
        return
    if info.status == 'exc':
        ctx.violation('algorithm-raises', info.case(), None, 'a consensus', exc=info.value)
        return
    c = info.value
    if not isinstance(c, _lib['Consensus']):
        ctx.violation('result-is-not-a-consensus', info.case(), repr(type(c)), 'Consensus')
        return
    try:
        rk = list(c.consensus_rankings)
    except Exception as e:
        ctx.violation('consensus-rankings-unreadable', info.case(), None, None, exc=e)
        return
    if len(rk) < 1:
        ctx.violation('no-consensus-ranking', info.case(), 0, '>= 1')
        return
    if info.one and len(rk) != 1:
        ctx.violation('more-than-one-ranking-although-one-requested', info.case(), len(rk), 1)
    for r in rk:
        bad = wellformed(r, info.back, info.universe)
        if bad:
            ctx.violation('malformed-consensus-ranking', info.case(result=str(rk)), bad, sorted(info.universe))
            return
        bad = ranking_views(r)
        if bad:
            ctx.violation('consensus-ranking-views-inconsistent', info.case(result=str(rk)), bad, None)
            return
    # reading the result (score, description, top-k, iteration) must leave it - and the dataset - as it was
    try:
        before = tuple(info.rankings())
        c.kemeny_score, c.description(), str(c), len(c), c.nb_consensus, c.elements, c.nb_elements
        for k in range(0, len(info.universe) + 2):
            c.topk_ranking(k)
            c.evaluate_topk_ranking([], k)
        list(iter(c)), c[0]
        after = tuple(info.back.ranking(r) for r in c.consensus_rankings)
    except Exception as e:
        ctx.violation('reading-the-consensus-raises', info.case(result=str(rk)), None, None, exc=e)
        return
    if after != before or any(wellformed(r, info.back, info.universe) for r in c.consensus_rankings):
        ctx.violation('consensus-changed-by-reading-it', info.case(), after, before)
        return
    from ..lib import structural_rankings
    want_ds = [tuple(frozenset((info.back.exp_type, info.back.exp_type(info.labels[x])) for x in b) for b in r) for r in info.ds]
    try:
        if structural_rankings(info.dataset) != want_ds:
            ctx.violation('dataset-changed-by-computing-or-reading-the-consensus', info.case(), str(info.dataset), str(want_ds))
            return
    except Exception as e:
        ctx.violation('dataset-unreadable-after-the-run', info.case(), None, None, exc=e)
        return
    if len(info.universe) >= 2:
        ctx.nontrivial += 1
    if len(rk) > 1:
        ctx.count('results_with_several_rankings')
    if any(len(r) == 0 for r in info.ds):
        ctx.count('runs_on_datasets_with_an_empty_ranking')
    if getattr(info, 'origin', None):
        ctx.count('runs_on_datasets_mutated_in_place_after_being_looked_at')
    if len(info.universe) == 4 and 'parcons' in info.cfg.tags or 'optimize' in info.cfg.tags:
        nt = refmodel.nontrivial_components(info.universe, info.ref.table)
        if nt and len(refmodel.components(info.universe, info.ref.table)) > 1:
            ctx.count('runs_with_a_nontrivial_component_next_to_other_components')
    ctx.outcome((info.cfg.name, tuple(info.rankings())))
    if ctx.evals % 7000 == 1:
        ctx.sample(info.case(result=info.rankings()))


def run_shard(sh):
    ctx = Ctx(ID)
    cross.run_block(ctx, sh, _lib['mode'], _lib[sh['configs']], oracle,
                    flags=(True,) if sh.get('flags') == 'one' else (True, False))
    return ctx.result()


def replay(ctx, c):
    cross.replay_case(ctx, c, oracle)


def summarize(tier, seed, merged, phases):
    c = merged['counters']
    cov = {'rule': 'every dataset of the blocks (int / reverse-int / string labels, thorough: digit strings, int-str '
                   'mixes, colliding ints) x schemes x EVERY algorithm configuration (26 + 3 CPLEX classes: ExactAlgorithm '
                   'selector with optimize on/off, ExactAlgorithmPulp, ParCons with bounds {80,0,1,2,3} and auxiliaries '
                   '{BioConsert, KwikSort, Copeland}, BioConsert with 7 starter lists, BioCo, KwikSort, Borda x2, '
                   'Copeland, PickAPerm) x both flags x ALL schedules, in three process modes (CPLEX absent + real CBC, '
                   'CPLEX absent + enumerating PuLP solver, cplex stand-in). Oracle: >=1 ranking, exactly 1 when asked, '
                   'non-empty pairwise disjoint buckets, union == universe as (type, value), Ranking views consistent; '
                   'a refusal must be a documented exception AND justified by the documented conditions; any other '
                   'exception or a timeout is a violation. non-trivial = result over >= 2 elements'}
    guards = [('documented refusals', c.get('documented_refusals', 0)),
              ('several rankings', c.get('results_with_several_rankings', 0)),
              ('datasets with an empty ranking', c.get('runs_on_datasets_with_an_empty_ranking', 0)),
              ('non-trivial component next to other components', c.get('runs_with_a_nontrivial_component_next_to_other_components', 0))]
    return cov, ['constructing the CPLEX classes directly while CPLEX is absent is a user error, not a case',
                 'the cplex stand-in returns any optimal vertex (all are enumerated as schedules)'], guards

"""C14 — declared scheme applicability is truthful; complete data is never refused."""
from .. import spaces, refmodel, harness, algos, cross
from ..harness import Ctx
from ..lib import wellformed

ID = 'C14'
_lib = {}


def scale(s, k):
    return (tuple(x * k for x in s[0]), tuple(x * k for x in s[1]))


def predicate_schemes():
    out = list(spaces.schemes_over([0, 1]))
    for base in (spaces.UNIFYING, spaces.UNIFYING_05, spaces.INDUCED, spaces.INDUCED_05, spaces.PSEUDO, spaces.EXTENDED):
        for k in (1, 2, 3, 0.5):
            out.append(scale(base, k))
    out += [s for _, s in spaces.SCHQ]
    seen, res = set(), []
    for s in out:
        if s not in seen:
            seen.add(s)
            res.append(s)
    return res


BEHAVIOUR_12 = [spaces.UNIFYING, scale(spaces.UNIFYING, 2), spaces.UNIFYING_05, spaces.INDUCED, scale(spaces.INDUCED_05, 3),
                spaces.PSEUDO, spaces.EXTENDED, spaces.UNIF_B_OTHER_T, spaces.IND_B_OTHER_T, spaces.B3LTB4,
                spaces.ZERO_HEAVY, ((0., 1., 1., 0., 1., 1.), (1., 1., 0., 1., 1., 1.))]
cross.SCHEME_KINDS['c14_12'] = BEHAVIOUR_12
cross.SCHEME_KINDS['c14_4'] = [spaces.UNIFYING, spaces.INDUCED_05, spaces.PSEUDO, spaces.UNIF_B_OTHER_T]


def plan(tier, seed):
    alt = spaces.label_choices(seed, 1)[0]
    if tier == 'quick':
        by_mode = {
            'absent': [dict(n=3, m=2, labels='ints', schemes='c14_12', configs='fast'),
                       dict(n=3, m=3, labels='ints', schemes='c14_4', configs='fast_det', complete_only=True, per=200),
                       dict(n=3, m=2, labels=alt, schemes='c14_4', configs='fast_det'),
                       dict(n=2, m=2, labels='ints', schemes='c14_4', configs='cbc', per=2),
                       dict(n=3, m=2, labels='ints', schemes='c14_4', configs='fast_det', premutate=True, reuse=False)],
            'absent_enum': [dict(n=3, m=2, labels='ints', schemes='c14_4', configs='solver')],
            'stub': [dict(n=3, m=2, labels='ints', schemes='c14_4', configs='solver')],
        }
    else:
        by_mode = {
            'absent': [dict(n=3, m=2, labels='ints', schemes='c14_12', configs='fast'),
                       dict(n=4, m=2, labels='ints', schemes='c14_12', configs='fast_det', per=60),
                       dict(n=3, m=3, labels='ints', schemes='c14_12', configs='fast_det', per=60),
                       dict(n=4, m=2, labels=alt, schemes='c14_4', configs='fast_det', per=60),
                       dict(n=3, m=2, labels='ints', schemes='c14_4', configs='cbc', per=6)],
            'absent_enum': [dict(n=3, m=2, labels='ints', schemes='c14_12', configs='solver'),
                            dict(n=4, m=2, labels='ints', schemes='c14_4', configs='solver', per=60)],
            'stub': [dict(n=3, m=2, labels='ints', schemes='c14_12', configs='solver'),
                     dict(n=4, m=2, labels='ints', schemes='c14_4', configs='solver', per=60)],
        }
    phases = cross.std_phases(by_mode)
    for ph in phases:
        ph['shards'].append({'kind': 'predicate', 'mode': ph['cfg']['mode']})
    return phases


def init_worker(cfg):
    mode = cfg['mode']
    algos.init_mode(mode)
    _lib['mode'] = mode
    allc = cross.select_configs(mode, lambda c: True) + algos.nested_configs(mode)
    _lib['all'] = allc
    _lib['fast'] = [c for c in allc if 'fast' in c.tags]
    _lib['fast_det'] = [c for c in allc if 'fast' in c.tags and 'kwik' not in c.tags]
    _lib['cbc'] = [c for c in allc if 'cbc' in c.tags]
    _lib['solver'] = [c for c in allc if 'enum' in c.tags or 'cbc' in c.tags]
    _lib['pred_cache'] = {}


EXACTLY_WHEN = {'BioConsert[Exact,Borda]', 'BioConsert[Exact,PickAPerm]', 'BioConsert[ParCons,Borda(bucket_id)]',
                'BioConsert[Borda,Exact]', 'BioConsert[Copeland,Borda]',
                'Borda', 'Borda(bucket_id)', 'PickAPerm', 'BioConsert[Borda]', 'BioConsert[PickAPerm]', 'BioCo',
                'BioConsert[Borda,Copeland]', 'BioConsert[Borda,KwikSort,PickAPerm]', 'BioConsert[BioCo]'}


def predicate(ctx, cfg, s, record=True):
    """('ok', bool) / ('bad', None); violations recorded once per (config, scheme)."""
    from ..lib import mk_scheme
    key = (cfg.name, s)
    if key in _lib['pred_cache']:
        return _lib['pred_cache'][key]
    case = {'cfg': {'mode': _lib['mode']}, 'kind': 'predicate', 'config': cfg.name, 'scheme': s}
    ctx.evals += 1
    try:
        v = cfg.factory().is_scoring_scheme_relevant_when_incomplete_rankings(mk_scheme(s))
    except Exception as e:
        if record:
            ctx.violation('predicate-raises', case, None, 'True or False', exc=e)
        res = ('bad', None)
    else:
        if v is True or v is False:
            res = ('ok', v)
        else:
            if record:
                ctx.violation('predicate-not-a-bool', case, repr(v), 'True or False')
            res = ('bad', None)
    _lib['pred_cache'][key] = res
    return res


def run_predicates(ctx):
    schemes = predicate_schemes()
    for cfg in _lib['all']:
        for s in schemes:
            ctx.cases += 1
            st, v = predicate(ctx, cfg, s)
            if st == 'ok':
                ctx.count('predicate_true' if v else 'predicate_false')
                ctx.outcome((cfg.name, v))
                if not v:
                    ctx.nontrivial += 1
    ctx.sample({'kind': 'predicate', 'configs': [c.name for c in _lib['all']], 'schemes': len(schemes)})


def oracle(ctx, info):
    complete = spaces.is_complete(info.ds)
    st, declared = predicate(ctx, info.cfg, info.s, record=False)
    if info.status == 'timeout':
        ctx.violation('no-termination', info.case(), 'timeout', None)
        return
    if info.status == 'exc':
        if complete or declared:
            ctx.violation('raises-although-applicable', info.case(declared=declared, complete=complete), None,
                          'a consensus', exc=info.value)
        else:
            # an undocumented exception on an input the algorithm declared it does not handle: for the three
            # "exactly when" families any exception is a refusal; elsewhere it is C03's business
            ctx.count('undocumented_exception_on_declared_irrelevant_scheme')
        return
    if info.status == 'refused':
        if complete:
            ctx.violation('complete-dataset-refused', info.case(declared=declared), type(info.value).__name__, 'a consensus')
        elif declared:
            ctx.violation('refused-although-declared-relevant', info.case(declared=declared), type(info.value).__name__,
                          'a consensus')
        else:
            ctx.count('refusals_matching_the_declaration')
            ctx.nontrivial += 1
        return
    # status ok
    for r in info.value.consensus_rankings:
        bad = wellformed(r, info.back, info.universe)
        if bad:
            if complete or declared:
                ctx.violation('malformed-consensus-although-applicable', info.case(declared=declared), bad, None)
            return
    if len(info.value.consensus_rankings) < 1:
        ctx.violation('no-ranking', info.case(), 0, '>=1')
        return
    if not complete and declared is False and info.cfg.name in EXACTLY_WHEN:
        ctx.violation('accepted-although-declared-not-relevant', info.case(declared=declared),
                      str(info.value.consensus_rankings), 'an exception')
        return
    if not complete and declared:
        ctx.count('accepted_incomplete_as_declared')
    if complete:
        ctx.count('accepted_complete')
    ctx.outcome((info.cfg.name, declared, complete))
    if ctx.evals % 5000 == 1:
        ctx.sample(info.case(declared=declared, complete=complete))


def run_shard(sh):
    ctx = Ctx(ID)
    if sh.get('kind') == 'predicate':
        run_predicates(ctx)
    else:
        flt = spaces.is_complete if sh.get('complete_only') else None
        cross.run_block(ctx, sh, _lib['mode'], _lib[sh['configs']], oracle, flags=(True,), ds_filter=flt)
    return ctx.result()


def replay(ctx, c):
    from ..lib import scheme_of
    if c.get('kind') == 'predicate':
        predicate(ctx, algos.config_by_name(c['config'], _lib['mode']), scheme_of(c['scheme']))
    else:
        cross.replay_case(ctx, c, oracle)


def summarize(tier, seed, merged, phases):
    c = merged['counters']
    cov = {'rule': 'predicate: every configuration (26 + 3 CPLEX classes + 5 nested: BioConsert[BioCo], ParCons with '
                   'Borda / BioCo / PickAPerm / BioConsert[Borda] auxiliaries) x all 96 valid schemes over {0,1} + preset '
                   'multiples + SCHq, in all three process modes: returns a bool, raises nothing. behaviour: every '
                   'dataset of the blocks x 12 schemes x configurations (return_at_most_one=True): declared relevant => '
                   'well-formed consensus on every incomplete dataset; complete dataset => never refused; Borda, PickAPerm '
                   'and BioConsert started from them raise on incomplete data exactly when they declared the scheme not '
                   'relevant. non-trivial = predicate False / refusal matching the declaration'}
    guards = [('predicate true', c.get('predicate_true', 0)), ('predicate false', c.get('predicate_false', 0)),
              ('refusals matching declaration', c.get('refusals_matching_the_declaration', 0)),
              ('accepted incomplete as declared', c.get('accepted_incomplete_as_declared', 0)),
              ('accepted complete', c.get('accepted_complete', 0))]
    return cov, ['IncompatibleArgumentsException is avoided by asking for one ranking'], guards

"""C18 — rankings and datasets survive a round trip through text and files; parser totality."""
import os
from itertools import product
from .. import spaces, harness
from ..harness import Ctx, watchdog, CaseTimeout

ID = 'C18'
_lib = {}
ALPHA_Q = ['[', ']', '{', '}', ',', ' ', 'a', '1', ':']
ALPHA_T = ALPHA_Q + ['\n', '-']
LABELSETS = {
    'ints': [0, 1, 2, 10],
    'strs': ['a', 'b1', 'A_b', 'zz'],
}


def plan(tier, seed):
    shards = []
    if tier == 'quick':
        alpha, L = ALPHA_Q, 6
    else:
        alpha, L = ALPHA_T, 7
    # totality: strings of length <= 2 in one shard, then one shard per 2-char (quick) / 3-char prefix
    plen = 2 if tier == 'quick' else 3
    shards.append({'kind': 'total', 'alpha': alpha, 'prefix': '', 'maxlen': plen - 1, 'exact': False})
    for pre in product(alpha, repeat=plen):
        shards.append({'kind': 'total', 'alpha': alpha, 'prefix': ''.join(pre), 'maxlen': L - plen, 'exact': True})
    if tier == 'thorough':
        # the quick alphabet one character deeper
        for pre in product(ALPHA_Q, repeat=3):
            shards.append({'kind': 'total', 'alpha': ALPHA_Q, 'prefix': ''.join(pre), 'maxlen': 5, 'exact': True,
                           'only_len': 8})
    for ls in LABELSETS:
        shards.append({'kind': 'text', 'labels': ls, 'n': 4})
        n, m = (3, 2) if tier == 'quick' else (4, 2)
        k = 8 if tier == 'quick' else 64
        for s in range(k):
            shards.append({'kind': 'file', 'labels': ls, 'n': n, 'm': m, 'shard': s, 'nshards': k})
        if tier == 'thorough':
            for s in range(32):
                shards.append({'kind': 'file', 'labels': ls, 'n': 3, 'm': 3, 'shard': s, 'nshards': 32})
    return [{'name': 'roundtrip', 'cfg': {}, 'shards': shards}]


def init_worker(cfg):
    harness.import_library(False)
    from corankco.ranking import Ranking
    from corankco.dataset import Dataset
    import corankco.utils as u
    _lib.update(R=Ranking, D=Dataset, u=u, tmp=cfg.get('worker_tmp') or cfg.get('tmpdir'))
    _lib['counter'] = 0


def parse_all(ctx, s):
    R, u = _lib['R'], _lib['u']
    for name, fn in (('from_string', R.from_string), ('of_int', u.parse_ranking_with_ties_of_int),
                     ('of_str', u.parse_ranking_with_ties_of_str)):
        ctx.evals += 1
        try:
            with watchdog(3):      # a parse takes microseconds; 3 s means it does not terminate
                fn(s)
            ctx.count('parsed_' + name)
        except ValueError:
            ctx.count('refused_' + name)
        except CaseTimeout as e:
            ctx.count('parser_hangs')
            ctx.violation('parser-hangs', {'cfg': {}, 'kind': 'total', 'text': s, 'fn': name}, 'timeout', 'ValueError or result')
        except Exception as e:
            ctx.violation('parser-other-failure', {'cfg': {}, 'kind': 'total', 'text': s, 'fn': name}, None,
                          'ValueError or result', exc=e)


def run_total(ctx, sh):
    alpha, pre = sh['alpha'], sh['prefix']
    only_len = sh.get('only_len')
    lens = range(0, sh['maxlen'] + 1)
    n = 0
    for L in lens:
        if only_len is not None and len(pre) + L != only_len:
            continue
        for t in product(alpha, repeat=L):
            s = pre + ''.join(t)
            n += 1
            if n % 2000 == 0:
                harness.mark({'note': 'enumerating strings', 'prefix': pre, 'count': n})
            if ctx.counters.get('parser_hangs', 0) >= 3:
                # three non-terminating parses already reported by this shard: the rest of its strings are skipped
                # (the run is a VIOLATION anyway; the evidence of a violated run is not a coverage claim)
                ctx.count('strings_skipped_after_three_hangs')
                continue
            parse_all(ctx, s)
    ctx.cases += n
    ctx.nontrivial += n
    ctx.count('strings', n)
    ctx.sample({'kind': 'total', 'prefix': pre, 'alphabet': ''.join(alpha), 'strings': n})


def renderings(text):
    """the textual forms the statement lists: brace / bracket notation, no blanks after commas,
    surrounding whitespace, a name prefix."""
    out = []
    for base in (text, text.replace('{', '[').replace('}', ']')):
        for t in (base, base.replace(', ', ','), base.replace(', ', ' ,  ')):
            out.extend([t, '  ' + t + ' \t', 'r1: ' + t, 'my name:' + t + '\n', t + '\n'])
    return out


def structural_ranking(r):
    return tuple(frozenset((e.type, e.value) for e in b) for b in r)


def run_text(ctx, sh):
    R = _lib['R']
    labels = LABELSETS[sh['labels']]
    exp_type = int if sh['labels'] == 'ints' else str
    for r in spaces.sub_weak_orders(sh['n']):
        orig = R([set(labels[x] for x in b) for b in r])
        want = tuple(frozenset((exp_type, labels[x]) for x in b) for b in r)
        for variant in renderings(str(orig)):
            ctx.cases += 1
            ctx.evals += 1
            case = {'cfg': {}, 'kind': 'text', 'labels': sh['labels'], 'ranking': r, 'text': variant}
            try:
                with watchdog(20):
                    back = R.from_string(variant)
            except Exception as e:
                ctx.violation('roundtrip-text-raises', case, None, str(orig), exc=e)
                continue
            if len(r) > 0:
                ctx.nontrivial += 1
            if not (back == orig) or not (orig == back):
                ctx.violation('roundtrip-text-not-equal', case, str(back), str(orig))
            elif structural_ranking(back) != want:
                ctx.violation('roundtrip-text-structure', case, repr(structural_ranking(back)), repr(want))
            # derived views of the parsed ranking agree with its buckets (C16 for this constructor route)
            elif back.nb_elements != sum(len(b) for b in r) or len(back) != len(r):
                ctx.violation('roundtrip-text-size', case, [back.nb_elements, len(back)], [sum(len(b) for b in r), len(r)])
            ctx.outcome(('text', len(r), variant[:2]))
        # Ranking.from_file route
        p = fresh_path()
        with open(p, 'w') as f:
            f.write(str(orig))
        ctx.evals += 1
        try:
            back = R.from_file(p)
            if not (back == orig):
                ctx.violation('roundtrip-ranking-file', {'cfg': {}, 'kind': 'text', 'labels': sh['labels'], 'ranking': r,
                                                         'text': str(orig)}, str(back), str(orig))
        except Exception as e:
            ctx.violation('roundtrip-ranking-file-raises', {'cfg': {}, 'kind': 'text', 'labels': sh['labels'],
                                                            'ranking': r, 'text': str(orig)}, None, str(orig), exc=e)
        os.unlink(p)
    ctx.sample({'kind': 'text', 'labels': labels, 'example': renderings("[{0, 1}, {2}]")[:4]})


def fresh_path():
    """a path that does not exist.  Every other call hands out the SAME name again (the previous file was deleted
    by the caller): a fresh file need not have a fresh name."""
    _lib['counter'] += 1
    if _lib['counter'] % 2 == 0:
        p = os.path.join(_lib['tmp'], 'f%d_again.txt' % os.getpid())
    else:
        p = os.path.join(_lib['tmp'], 'f%d_%d.txt' % (os.getpid(), _lib['counter']))
    if os.path.exists(p):
        os.unlink(p)
    return p


def structural_dataset(d):
    from collections import Counter
    return Counter(tuple(frozenset((e.type, e.value) for e in b) for b in r) for r in d.rankings)


def check_file(ctx, ds, lname, n):
    from ..lib import mk_dataset
    D = _lib['D']
    labels = LABELSETS[lname]
    case = {'cfg': {}, 'kind': 'file', 'labels': lname, 'n': n, 'dataset': ds}
    orig = mk_dataset(ds, labels, name='orig')
    p = fresh_path()
    ctx.cases += 1
    ctx.evals += 2
    try:
        orig.write(p)
        if not os.path.isfile(p):
            ctx.violation('write-produced-no-file', case, None, p)
            return
        with watchdog(20):
            back = D.from_file(p)
    except Exception as e:
        ctx.violation('roundtrip-file-raises', case, None, str(orig), exc=e)
        return
    finally:
        if os.path.exists(p):
            os.unlink(p)
    if any(len(r) == 0 for r in ds):
        ctx.count('datasets_with_empty_ranking')
    ctx.nontrivial += 1
    if structural_dataset(back) != structural_dataset(orig):
        ctx.violation('roundtrip-file-structure', case, str(back), str(orig))
    elif not (back == orig) or not (orig == back):
        ctx.violation('roundtrip-file-not-equal', case, str(back), str(orig))
    ctx.outcome(('file', len(ds), back.nb_rankings))


def run_file(ctx, sh):
    for index, ds in spaces.ds_iter_strided(sh['n'], sh['m'], sh['shard'], sh['nshards']):
        check_file(ctx, ds, sh['labels'], sh['n'])
    ctx.sample({'kind': 'file', 'labels': LABELSETS[sh['labels']], 'block': [sh['n'], sh['m']]})


def run_shard(sh):
    ctx = Ctx(ID)
    {'total': run_total, 'text': run_text, 'file': run_file}[sh['kind']](ctx, sh)
    return ctx.result()


def replay(ctx, c):
    if c['kind'] == 'total':
        parse_all(ctx, c['text'])
    elif c['kind'] == 'text':
        run_text(ctx, {'labels': c['labels'], 'n': 4})
    else:
        check_file(ctx, tuple(tuple(tuple(b) for b in r) for r in c['dataset']), c['labels'], c['n'])


def summarize(tier, seed, merged, phases):
    c = merged['counters']
    cov = {
        'rule': 'totality: EVERY string over the alphabet ' + repr(''.join(ALPHA_Q if tier == 'quick' else ALPHA_T)) +
                ' up to length %d (thorough also the 9-char alphabet at length 8) through Ranking.from_string and both '
                'parse functions; oracle: returns or raises ValueError (watchdog for hangs). round trip: every ranking '
                'of SWO(4) over int labels {0,1,2,10} and string labels {a,b1,A_b,zz} in 30 renderings (brace/bracket, '
                'comma spacing, padding, name prefix, newline) and via Ranking.from_file; files: every dataset of the '
                'DS block written to a fresh path and read back, structurally equal and library-equal'
                % (6 if tier == 'quick' else 7),
        'strings_enumerated': c.get('strings', 0),
        # the thorough tier also runs the quick tier's shards
        'strings_expected': spaces.strings_count(9, 6) if tier == 'quick' else
        spaces.strings_count(9, 6) + spaces.strings_count(11, 7) + 9 ** 8,
    }
    if cov['strings_enumerated'] != cov['strings_expected']:
        raise harness.HarnessError('string enumeration incomplete: %r' % cov)
    guards = [('parsed', c.get('parsed_from_string', 0)), ('refused', c.get('refused_from_string', 0)),
              ('datasets with an empty ranking', c.get('datasets_with_empty_ranking', 0))]
    return cov, ['element alphabet: non-negative ints, strings free of delimiters and not int-like (as the statement says)'], guards

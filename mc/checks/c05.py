"""C05 — the exact algorithm returns a global optimum, with or without CPLEX."""
import numpy as np
from .. import spaces, refmodel, harness, algos, cross, envstub
from ..harness import Ctx
from ..lib import wellformed

ID = 'C05'
_lib = {}
EXACT = ['Exact(opt=True)', 'Exact(opt=False)', 'Exact()', 'ExactPulp', 'ExactCplex(opt=True)', 'ExactCplex(opt=False)',
         'ExactCplexOptim1']


def plan(tier, seed):
    alt = spaces.label_choices(seed, 1)[0]
    if tier == 'quick':
        by_mode = {
            'absent': [dict(n=3, m=2, labels='ints', schemes='two_b', per=6), dict(n=2, m=3, labels='ints', schemes='one_b', per=4),
                       dict(n=1, m=2, labels='ints', schemes='two')],
            'absent_enum': [dict(n=3, m=2, labels='ints', schemes='six'), dict(n=2, m=3, labels='ints', schemes='four'),
                            dict(n=3, m=2, labels=alt, schemes='two'),
                            dict(n=3, m=2, labels='ints', schemes='one', premutate=True, reuse=False, flags='one'),
                            dict(n=3, m=3, labels='ints', schemes='cycle', per=60, nontrivial_only=True),
                            dict(space='ext43', labels='ints', schemes='ext', per=300, flags='one')],
            'stub': [dict(n=3, m=2, labels='ints', schemes='six'), dict(n=3, m=2, labels='ints', schemes='rest11', reuse=False),
                     dict(n=4, m=2, labels='ints', schemes='one_b', per=60, flags='one', configs='plain'),
                     dict(n=3, m=2, labels=alt, schemes='two'),
                     dict(n=1, m=2, labels='ints', schemes='two'),
                     dict(n=3, m=2, labels='ints', schemes='one', premutate=True, reuse=False, flags='one'),
                     dict(n=3, m=3, labels='ints', schemes='cycle', per=60, nontrivial_only=True),
                     dict(space='ext43', labels='ints_rev', schemes='ext', per=300)],
        }
    else:
        by_mode = {
            'absent': [dict(n=3, m=2, labels='ints', schemes='six', per=6), dict(n=3, m=3, labels='ints', schemes='one', per=30, maxk=256),
                       dict(n=4, m=2, labels='ints', schemes='one_b', per=30, maxk=256, components_only=True)],
            'absent_enum': [dict(n=4, m=2, labels='ints', schemes='six', per=60), dict(n=3, m=3, labels='ints', schemes='six', per=60),

                            dict(space='ext43', ext='all27', labels='ints', schemes='ext', per=100)],
            'stub': [dict(n=4, m=2, labels='ints', schemes='six', per=60), dict(n=4, m=2, labels='ints', schemes='rest11', per=60, flags='one'),
                     dict(n=3, m=3, labels='ints', schemes='six', per=60),
                     dict(n=5, m=2, labels='ints', schemes='one_b', per=2000, maxk=256, flags='one', configs='plain2'),
                     dict(n=4, m=2, labels=alt, schemes='two', per=60),
                     dict(space='ext43', ext='all27', labels='ints', schemes='ext', per=100)],
        }
    phases = cross.std_phases(by_mode)
    if tier == 'thorough':
        fam = []
        for n, mm in ((6, 3), (7, 2), (8, 2)):
            k = 64
            for s in range(k):
                fam.append({'kind': 'family', 'n': n, 'mmax': mm, 'shard': s, 'nshards': k, 'mode': 'absent',
                            'schemes': 'two' if n == 6 else 'one'})
        phases[0]['shards'].extend(fam)
        famstub = [{'kind': 'family', 'n': 6, 'mmax': 2, 'shard': s, 'nshards': 32, 'mode': 'stub', 'schemes': 'two'}
                   for s in range(32)]
        phases[2]['shards'].extend(famstub)
        phases[2]['cfg']['hang_after'] = 1500
    return phases


def init_worker(cfg):
    mode = cfg['mode']
    algos.init_mode(mode)
    _lib['mode'] = mode
    _lib['configs'] = cross.select_configs(mode, EXACT)
    _lib['plain'] = cross.select_configs(mode, ['ExactCplex(opt=False)', 'ExactCplexOptim1', 'Exact(opt=True)'])
    _lib['plain2'] = cross.select_configs(mode, ['ExactCplex(opt=False)', 'Exact(opt=True)'])
    _lib['decoded'] = {}


def decode_point(names, point):
    """0/1 point of the ILP -> weak order over ids (tuple of sorted tuples) or None if it is not one."""
    rel = {}
    n = 0
    for name, v in zip(names, point):
        kind, i, j = name.split('_')
        i, j = int(i), int(j)
        n = max(n, i + 1, j + 1)
        if v:
            if kind == 'x':
                if (i, j) in rel:
                    return None
                rel[(i, j)] = -1
                rel[(j, i)] = 1
            else:
                if (i, j) in rel:
                    return None
                rel[(i, j)] = 0
                rel[(j, i)] = 0
    if len(rel) != n * (n - 1):
        return None
    # position = number of elements strictly before
    before = [sum(1 for j in range(n) if j != i and rel[(i, j)] == 1) for i in range(n)]
    groups = {}
    for i, b in enumerate(before):
        groups.setdefault(b, []).append(i)
    order = tuple(tuple(groups[k]) for k in sorted(groups))
    pos = refmodel.bucket_index(order)
    for (i, j), r in rel.items():
        want = (pos[i] > pos[j]) - (pos[i] < pos[j])
        if r != want:
            return None
    return order


def model_invariants(ctx, info):
    """non-optimised CPLEX model: feasible set <-> WO(U), objective(point) == score of the decoded ranking."""
    last = envstub.LAST
    if not last or 'names' not in last:
        return
    feas = last['feasible']
    names = last['names']
    k = len(info.universe)
    if len(names) != k * (k - 1) + k * (k - 1) // 2:
        return  # a sub-model (not the whole universe): not this invariant
    key = (tuple(names), feas.shape, feas.tobytes() if feas.size < 200000 else None)
    dec = _lib['decoded'].get(key)
    if dec is None:
        dec = [decode_point(names, p) for p in feas]
        if len(_lib['decoded']) > 50:
            _lib['decoded'].clear()
        _lib['decoded'][key] = dec
    case = info.case(model='unpruned')
    if any(d is None for d in dec):
        bad = [i for i, d in enumerate(dec) if d is None][0]
        ctx.violation('ilp-feasible-point-is-not-a-ranking', case, [int(x) for x in feas[bad]], None)
        return
    if len(set(dec)) != len(dec) or len(dec) != spaces.FUBINI[k]:
        ctx.violation('ilp-feasible-set-not-in-bijection-with-rankings', case, [len(dec), len(set(dec))], spaces.FUBINI[k])
        return
    # objective == score: ids -> abstract elements through the dataset's own id map
    from corankco.element import Element
    id2abs = {}
    for e, i in info.dataset.mapping_elem_id.items():
        id2abs[i] = info.back.elem(e)
    vals = last['values']
    for d, v in zip(dec, vals):
        order = tuple(tuple(sorted(id2abs[i] for i in b)) for b in d)
        t = info.ref.score(order)
        if abs(float(v) - t) > 1e-6:
            ctx.violation('ilp-objective-differs-from-score', dict(case, ranking=order), float(v), t)
            return
    ctx.count('models_checked_against_all_rankings')


def oracle(ctx, info):
    name = info.cfg.name
    if info.status == 'refused':
        if 'optimize' in info.cfg.tags and not info.one:
            ctx.count('documented_incompatible_arguments')
        else:
            ctx.violation('exact-refuses', info.case(), type(info.value).__name__, 'an optimal consensus')
        return
    if info.status != 'ok':
        ctx.violation('exact-raises' if info.status == 'exc' else 'no-termination', info.case(), None,
                      'an optimal consensus', exc=info.value if info.status == 'exc' else None)
        return
    c = info.value
    for r in c.consensus_rankings:
        bad = wellformed(r, info.back, info.universe)
        if bad:
            ctx.violation('malformed-consensus', info.case(), bad, None)
            return
    got = info.rankings()
    if not got:
        ctx.violation('no-ranking', info.case(), 0, '>=1')
        return
    opt, mins = info.ref.optimum
    tol = 1e-9
    for r in got:
        sc = info.ref.score(r)
        if sc > opt + tol:
            ctx.violation('not-a-global-optimum', info.case(result=r), sc, [opt, mins[:3]])
            return
    if name == 'ExactCplex(opt=False)' and not info.one:
        if set(got) != set(mins):
            ctx.violation('all-optimal-set-differs-from-minimisers', info.case(), sorted(set(got)), sorted(mins))
        elif len(got) != len(set(got)):
            ctx.violation('all-optimal-set-has-duplicates', info.case(), got, sorted(mins))
        if len(mins) > 1:
            ctx.count('cases_with_several_minimisers_all_returned')
    if name == 'ExactCplex(opt=False)' and info.mode == 'stub':
        model_invariants(ctx, info)
    # back-end selection
    if 'selector' in info.cfg.tags:
        try:
            full = info.cfg.factory().get_full_name()
        except Exception as e:
            ctx.violation('selector-name-raises', info.case(), None, None, exc=e)
            full = ''
        is_pulp = 'pulp' in full.lower()
        if info.mode == 'stub' and is_pulp:
            ctx.violation('selector-ignores-available-cplex', info.case(), full, 'the CPLEX back-end')
        if info.mode != 'stub' and not is_pulp:
            ctx.violation('selector-does-not-fall-back-to-free-solver', info.case(), full, 'the free solver back-end')
    if not c.necessarily_optimal:
        ctx.count('exact_result_not_flagged_optimal')
    if len(mins) > 1:
        ctx.count('runs_with_several_minimisers')
    if len(info.choices) > 0:
        ctx.count('runs_under_a_non_default_optimal_vertex')
    if opt > 0:
        ctx.nontrivial += 1
    if refmodel.nontrivial_components(info.universe, info.ref.table):
        ctx.count('runs_with_a_component_that_cannot_be_all_tied')
        if len(refmodel.components(info.universe, info.ref.table)) > 1:
            ctx.count('runs_with_such_a_component_next_to_other_components')
    ctx.outcome((name, tuple(got)))
    if ctx.evals % 5000 == 1:
        ctx.sample(info.case(result=got, optimum=opt))


# ------------------------------------------------------------------ structured families, DP oracle

def family(n):
    ident = tuple((i,) for i in range(n))
    out = []
    for base in (ident, tuple(reversed(ident))):
        for k in range(n):
            out.append(base[k:] + base[:k])
    for i in range(n - 1):
        out.append(ident[:i] + ((i, i + 1),) + ident[i + 2:])
    for i in range(1, n):
        out.append(ident[:i])
    return out


def run_family(ctx, sh):
    from itertools import product
    from ..lib import mk_dataset, mk_scheme, labels_for, Back
    n = sh['n']
    fam = family(n)
    labels = labels_for('ints', n)
    schemes = cross.SCHEME_KINDS[sh['schemes']]
    if _lib['mode'] == 'stub':
        configs = cross.select_configs('stub', ['ExactCplex(opt=True)', 'ExactCplexOptim1'])
    else:
        configs = cross.select_configs(_lib['mode'], ['Exact(opt=True)'])
    idx = 0
    for m in range(1, sh['mmax'] + 1):
        for ds in product(fam, repeat=m):
            idx += 1
            if idx % sh['nshards'] != sh['shard']:
                continue
            universe = spaces.universe_of(ds)
            back = Back(labels, universe)
            ctx.cases += 1
            for s in schemes:
                table = refmodel.ref_table(universe, ds, s[0], s[1])
                opt = refmodel.dp_optimum(universe, table)
                for cfg in configs:
                    case = {'cfg': {'mode': _lib['mode']}, 'kind': 'family', 'dataset': ds, 'labels': 'ints', 'n': n,
                            'scheme': s, 'config': cfg.name, 'one': True, 'schedule': []}
                    harness.mark(case)
                    ctx.evals += 1
                    status, value, trace = algos.run_config(cfg, mk_dataset(ds, labels), mk_scheme(s), True, [], timeout=600)
                    if status != 'ok':
                        ctx.violation('exact-raises' if status == 'exc' else 'exact-' + status, case, None, opt,
                                      exc=value if status == 'exc' else None)
                        continue
                    r = value.consensus_rankings[0]
                    bad = wellformed(r, back, universe)
                    if bad:
                        ctx.violation('malformed-consensus', case, bad, None)
                        continue
                    sc = refmodel.score_from_table(back.ranking(r), table)
                    if sc > opt + 1e-9:
                        ctx.violation('not-a-global-optimum', dict(case, result=back.ranking(r)), sc, opt)
                    ctx.count('family_runs')
                    if opt > 0:
                        ctx.nontrivial += 1
    ctx.sample({'kind': 'family', 'n': n, 'rankings_in_family': len(fam), 'mmax': sh['mmax']})


def run_shard(sh):
    ctx = Ctx(ID)
    if sh.get('kind') == 'family':
        run_family(ctx, sh)
    else:
        flt = None
        if sh.get('nontrivial_only'):
            schemes = cross.SCHEME_KINDS[sh['schemes']]

            def flt(ds):
                u = spaces.universe_of(ds)
                return any(refmodel.nontrivial_components(u, refmodel.ref_table(u, ds, s[0], s[1])) for s in schemes)
        if sh.get('components_only'):
            flt = lambda ds: len(ds) == 2 and len(spaces.universe_of(ds)) == 4
        cross.run_block(ctx, sh, _lib['mode'], _lib[sh.get('configs', 'configs')], oracle, ds_filter=flt,
                        flags=(True,) if sh.get('flags') == 'one' else (True, False))
    return ctx.result()


def replay(ctx, c):
    cross.replay_case(ctx, c, oracle)


def summarize(tier, seed, merged, phases):
    c = merged['counters']
    cov = {'rule': 'every dataset of the blocks x schemes x {ExactAlgorithm(optimize=True|False|default), '
                   'ExactAlgorithmPulp, ExactAlgorithmCplex(optimize=True|False), ExactAlgorithmCplexForPaperOptim1} x both '
                   'flags x EVERY optimal vertex the solver may return (schedules), in three process modes: (a) CPLEX '
                   'absent + real CBC (selector must fall back and answer), (b) cplex stand-in = exhaustive 0/1 '
                   'enumerator (selector must take the CPLEX path), (c) PuLP with the enumerating solver. Oracle: '
                   'ref_score(result) == brute-force optimum over all rankings with ties; non-optimised CPLEX model with '
                   'all rankings requested: returned set == set of minimisers exactly; model invariants: feasible set '
                   'of the unpruned ILP in bijection with WO(U) and objective(point) == score(decoded ranking) for every '
                   'point. thorough: structured families at n=6..8 against the subset-DP oracle'}
    guards = [('several minimisers all returned', c.get('cases_with_several_minimisers_all_returned', 0)),
              ('models checked', c.get('models_checked_against_all_rankings', 0)),
              ('non-default optimal vertex', c.get('runs_under_a_non_default_optimal_vertex', 0)),
              ('documented incompatible arguments', c.get('documented_incompatible_arguments', 0)),
              ('non-trivial component', c.get('runs_with_a_component_that_cannot_be_all_tied', 0)),
              ('non-trivial component next to others', c.get('runs_with_such_a_component_next_to_other_components', 0))]
    return cov, ['real CPLEX is never run: the stand-in returns exactly the optimal points (no time limit / mip-gap effects)',
                 'CBC is trusted as exact on these <= 30-variable models and cross-checked by the enumerating solver'], guards

"""C02 — pairwise cost table matches the definition, is mirror consistent, view independent and
sums to the Kemeny score."""
import numpy as np
from .. import spaces, refmodel, harness
from ..harness import Ctx, watchdog

ID = 'C02'
_lib = {}


def plan(tier, seed):
    alt = spaces.label_choices(seed, 1)[0]
    if tier == 'quick':
        blocks = [(3, 2, 'all', 'ints'), (2, 3, 'all', 'ints'), (4, 1, 'all', 'ints'), (3, 2, 'core', alt),
                  (4, 2, 'core2', 'ints'), (3, 1, 'sch01', 'ints'), (2, 2, 'sch01', 'ints')]
    else:
        blocks = [(4, 2, 'all', 'ints'), (3, 3, 'all', 'ints'), (5, 1, 'all', 'ints'), (3, 2, 'sch01', 'ints'),
                  (4, 2, 'core', alt), (2, 4, 'all', 'ints'), (5, 2, 'core2', 'ints')]
    shards, expected = [], 0
    for (n, m, schemes, lab) in blocks:
        total = spaces.SWO_COUNT[n] ** m
        k = max(1, min(64, total // 20))
        for s in range(k):
            shards.append({'n': n, 'm': m, 'schemes': schemes, 'labels': lab, 'shard': s, 'nshards': k})
        expected += total - 1
    return [{'name': 'table', 'cfg': {}, 'shards': shards, 'expected_cases': expected}]


def init_worker(cfg):
    harness.import_library(False)
    from corankco.algorithms.pairwisebasedalgorithm import PairwiseBasedAlgorithm
    from corankco.kemeny_score_computation import KemenyComputingFactory
    _lib['P'] = PairwiseBasedAlgorithm
    _lib['K'] = KemenyComputingFactory
    _lib['sch01'] = spaces.schemes_over([0, 1])


def scheme_list(kind):
    if kind == 'all':
        return [s for _, s in spaces.SCHQ]
    if kind == 'core':
        return [spaces.POSITIONAL, spaces.UNIFYING, spaces.PSEUDO_05, spaces.B3LTB4]
    if kind == 'core2':
        return [spaces.POSITIONAL, spaces.B3LTB4]
    if kind == 'sch01':
        return _lib['sch01']
    raise harness.HarnessError(kind)


def case(ds, labels_name, n, s, extra=None):
    c = {'cfg': {}, 'dataset': ds, 'labels': labels_name, 'n': n, 'scheme': s}
    if extra:
        c.update(extra)
    return c


def check_case(ctx, ds, labels_name, n, schemes, score_with_library=True):
    from ..lib import mk_dataset, mk_scheme, labels_for, mk_ranking
    from corankco.element import Element
    labels = labels_for(labels_name, n)
    universe = spaces.universe_of(ds)
    k = len(universe)
    dataset = mk_dataset(ds, labels)
    exp_type = int if all(isinstance(labels[x], int) or str(labels[x]).isdigit() for x in universe) else str
    ids = {}
    try:
        for x in universe:
            ids[x] = dataset.mapping_elem_id[Element(exp_type(labels[x]))]
    except Exception as e:
        ctx.violation('id-map', case(ds, labels_name, n, None), None, None, exc=e)
        return
    if sorted(ids.values()) != list(range(k)):
        ctx.violation('id-map-not-dense', case(ds, labels_name, n, None), ids, list(range(k)))
        return
    # the two matrices themselves
    ctx.evals += 2
    try:
        pos = dataset.get_positions()
        bid = dataset.get_bucket_ids()
    except Exception as e:
        ctx.violation('matrix-raises', case(ds, labels_name, n, None), None, None, exc=e)
        return
    exp_pos = np.full((k, len(ds)), -1, dtype=np.int64)
    exp_bid = np.full((k, len(ds)), -1, dtype=np.int64)
    for j, r in enumerate(ds):
        before = 0
        for bi, b in enumerate(r):
            for x in b:
                exp_pos[ids[x], j] = before
                exp_bid[ids[x], j] = bi
            before += len(b)
    if pos.shape != exp_pos.shape or not np.array_equal(pos, exp_pos):
        ctx.violation('positions-matrix', case(ds, labels_name, n, None), pos, exp_pos)
    if bid.shape != exp_bid.shape or not np.array_equal(bid, exp_bid):
        ctx.violation('bucketids-matrix', case(ds, labels_name, n, None), bid, exp_bid)
    if pos.dtype != np.int32 or bid.dtype != np.int32:
        ctx.count('matrix_dtype_not_int32')
    order = sorted(universe, key=lambda x: ids[x])  # abstract elements in library id order
    widx = refmodel.WOIndex.get(k) if k >= 1 else None
    cands = None
    for s in schemes:
        ctx.cases += 1
        scheme = mk_scheme(s)
        table = refmodel.ref_table(universe, ds, s[0], s[1])
        exp = refmodel.table_array(order, table)
        ctx.evals += 2
        try:
            with watchdog(30):
                got_p = _lib['P'].pairwise_cost_matrix(pos, scheme)
                got_b = _lib['P'].pairwise_cost_matrix(bid, scheme)
        except Exception as e:
            ctx.violation('table-raises', case(ds, labels_name, n, s), None, None, exc=e)
            continue
        if got_p.shape != (k, k, 3):
            ctx.violation('table-shape', case(ds, labels_name, n, s), got_p.shape, (k, k, 3))
            continue
        tol = 1e-9   # absolute: all penalties are dyadic, every sum is exact in float64
        if not np.allclose(got_p, exp, rtol=0, atol=tol):
            bad = np.argwhere(np.abs(got_p - exp) > tol)[0]
            ctx.violation('table-mismatch', case(ds, labels_name, n, s, {'entry': bad, 'id_order': order}),
                          got_p, exp)
        if got_b.shape != got_p.shape or not np.array_equal(got_p, got_b):
            ctx.violation('view-dependence', case(ds, labels_name, n, s), got_b, got_p)
        # mirror consistency, checked on the library's own output
        if not (np.array_equal(got_p[:, :, 0], got_p[:, :, 1].T) and np.array_equal(got_p[:, :, 2], got_p[:, :, 2].T)):
            ctx.violation('mirror', case(ds, labels_name, n, s), got_p, None)
        if k >= 2:
            ctx.nontrivial += 1
        ctx.outcome(tuple(np.round(exp.reshape(-1), 6)))
        # sums to the score for every complete candidate
        if k >= 1:
            sums = widx.W @ got_p.reshape(-1)
            if cands is None:
                from ..lib import typed_labels
                lab = typed_labels(labels, universe)
                cands = [(tuple(tuple(order[i] for i in b) for b in c), None) for c in widx.orders]
                cands = [(c, mk_ranking(c, lab)) for c, _ in cands]
            fac = _lib['K'](scheme) if score_with_library else None
            for ci, (c, cr) in enumerate(cands):
                ref = refmodel.ref_score(c, ds, s[0], s[1])
                if abs(sums[ci] - ref) > 1e-9:
                    ctx.violation('table-sum-vs-definition', case(ds, labels_name, n, s, {'candidate': c}),
                                  float(sums[ci]), ref)
                    break
                if fac is not None:
                    ctx.evals += 1
                    try:
                        lib_score = float(fac.get_kemeny_score(cr, dataset))
                    except Exception as e:
                        ctx.violation('score-raises', case(ds, labels_name, n, s, {'candidate': c}), None, ref, exc=e)
                        break
                    if abs(sums[ci] - lib_score) > 1e-9:
                        ctx.violation('table-sum-vs-library-score', case(ds, labels_name, n, s, {'candidate': c}),
                                      float(sums[ci]), lib_score)
                        break
            ctx.count('candidate_sums', len(cands))
    # histories: every ordered pair of schemes requested one after the other on the same matrices (a table must
    # not depend on what was asked before: one-slot caches, memoisation keyed on too little)
    if len(schemes) <= 20 and k >= 2:
        objs = [(s, mk_scheme(s), refmodel.table_array(order, refmodel.ref_table(universe, ds, s[0], s[1]))) for s in schemes]
        for s1, o1, _ in objs:
            for s2, o2, exp2 in objs:
                if s1 is s2:
                    continue
                ctx.evals += 2
                try:
                    _lib['P'].pairwise_cost_matrix(pos, o1)
                    got2 = _lib['P'].pairwise_cost_matrix(pos, o2)
                except Exception as e:
                    ctx.violation('table-raises', case(ds, labels_name, n, s2, {'after_scheme': s1}), None, None, exc=e)
                    continue
                if got2.shape != exp2.shape or not np.allclose(got2, exp2, rtol=0, atol=1e-9):
                    ctx.violation('table-depends-on-the-previous-request', case(ds, labels_name, n, s2, {'after_scheme': s1}),
                                  got2, exp2)
                    break
        ctx.count('ordered_scheme_pairs', len(objs) * (len(objs) - 1))
    ctx.sample({'dataset': ds, 'labels': labels_name, 'schemes': len(schemes), 'id_order': order})


def run_shard(sh):
    ctx = Ctx(ID)
    schemes = scheme_list(sh['schemes'])
    for index, ds in spaces.ds_iter_strided(sh['n'], sh['m'], sh['shard'], sh['nshards']):
        before = ctx.cases
        check_case(ctx, ds, sh['labels'], sh['n'], schemes, score_with_library=(sh['n'] <= 4))
        ctx.count('tables', ctx.cases - before)
        ctx.cases = before + 1
        if not spaces.is_complete(ds):
            ctx.count('incomplete_datasets')
        if spaces.first_appearance_order(ds) != sorted(spaces.universe_of(ds)):
            ctx.count('id_order_differs_from_label_order')
    return ctx.result()


def replay(ctx, c):
    ds = tuple(tuple(tuple(b) for b in r) for r in c['dataset'])
    schemes = [(tuple(c['scheme'][0]), tuple(c['scheme'][1]))] if c.get('scheme') else [spaces.UNIFYING]
    if c.get('after_scheme'):
        schemes = [(tuple(c['after_scheme'][0]), tuple(c['after_scheme'][1]))] + schemes
    check_case(ctx, ds, c['labels'], c['n'], schemes)


def summarize(tier, seed, merged, phases):
    cov = {
        'rule': 'every dataset of the DS(n,m) blocks x scheme list: positions and bucket-id matrices vs reference, '
                'cost table from both views vs ref_table (three 2-element reference scores per ordered pair), mirror '
                'identities, and for EVERY complete candidate in WO(U): selected entries == ref_score == library '
                'get_kemeny_score. states = datasets; tables counter = (dataset,scheme) pairs; non-trivial = table '
                'with >= 2 elements',
        'bounds': 'quick DS(3,2), DS(2,3), DS(4,1) x 16 schemes, DS(4,2) x 2 schemes; thorough DS(4,2), DS(3,3), '
                  'DS(5,1) x 16, DS(3,2) x 96 schemes over {0,1}, DS(5,2) x 2 schemes',
    }
    guards = [('incomplete datasets', merged['counters'].get('incomplete_datasets', 0)),
              ('id order != label order', merged['counters'].get('id_order_differs_from_label_order', 0)),
              ('candidate sums', merged['counters'].get('candidate_sums', 0)),
              ('distinct tables', len(merged['outcomes']) > 10)]
    return cov, ['dyadic penalties; unit weights (the weights argument is not part of the property)'], guards

"""C11 — KwikSort's result is pivot-independent when pairwise preferences cohere; every element is
placed relative to the pivot of its recursion step by the cheapest pairwise placement.
ALL pivot schedules are enumerated (the chooser owns random.choice)."""
from .. import spaces, refmodel, harness, chooser
from ..harness import Ctx, watchdog
from ..lib import ds_shards, ds_expected, tt, scheme_of

ID = 'C11'
_lib = {}


def plan(tier, seed):
    alt = spaces.label_choices(seed, 1)[0]
    if tier == 'quick':
        blocks = [dict(n=3, m=2, labels='ints', histories=True), dict(n=4, m=1, labels='ints'), dict(n=3, m=3, labels='ints', schemes='core2'),
                  dict(n=3, m=2, labels=alt), dict(n=4, m=2, labels='ints', schemes='core2'), dict(n=2, m=3, labels='ints')]
    else:
        blocks = [dict(n=4, m=2, labels='ints'), dict(n=5, m=1, labels='ints'), dict(n=3, m=3, labels='ints'),
                  dict(n=4, m=2, labels=alt, schemes='core'), dict(n=2, m=4, labels='ints'),
                  dict(n=5, m=2, labels='ints', schemes='core1')]
    return [{'name': 'kwiksort', 'cfg': {}, 'shards': ds_shards(blocks), 'expected_cases': ds_expected(blocks)}]


def init_worker(cfg):
    harness.import_library(False)
    from corankco.algorithms.kwiksort.kwiksortrandom import KwikSortRandom
    _lib.update(A=KwikSortRandom)


def scheme_list(kind):
    if kind == 'core':
        return [spaces.UNIFYING, spaces.PSEUDO_05, spaces.ZERO_HEAVY, spaces.B3LTB4, spaces.INDUCED, spaces.EXTENDED]
    if kind == 'core2':
        return [spaces.UNIFYING, spaces.B3LTB4, spaces.EXTENDED]
    if kind == 'core1':
        return [spaces.B3LTB4]
    return [s for _, s in spaces.SCHQ]


def coherent_order(universe, table):
    """the ranking W whose comparison relation is the cheapest-placement relation, or None."""
    pref = {}
    for x in universe:
        for y in universe:
            if x != y:
                pref[(x, y)] = refmodel.kwik_pref(table, x, y)
    for (x, y), v in pref.items():
        if pref[(y, x)] != -v:
            return None
    for w in spaces.weak_orders(universe):
        pos = refmodel.bucket_index(w)
        if all(v == (pos[x] > pos[y]) - (pos[x] < pos[y]) for (x, y), v in pref.items()):
            return refmodel.canon(w)
    return None


def check_case(ctx, ds, lname, n, schemes, dataset_obj=None, origin=None, scheme_objs=None):
    from ..lib import mk_dataset, mk_scheme, labels_for, Back, wellformed
    labels = labels_for(lname, n)
    universe = spaces.universe_of(ds)
    dataset = dataset_obj if dataset_obj is not None else mk_dataset(ds, labels)
    back = Back(labels, universe)
    identical_complete = spaces.is_complete(ds) and len(set(ds)) == 1
    for s in schemes:
        scheme = scheme_objs[s] if scheme_objs and s in scheme_objs else mk_scheme(s)
        table = refmodel.ref_table(universe, ds, s[0], s[1])
        W = coherent_order(universe, table)
        if identical_complete and s[0][2] > 0 and s[1][0] > 0:
            if W != refmodel.canon(ds[0]):
                raise harness.HarnessError("identical complete rankings must be coherent: %r %r %r" % (ds, s, W))
            ctx.count('identical_ranking_cases')
        ctx.cases += 1
        results = set()

        def run(ch):
            try:
                with watchdog(30):
                    return 'ok', _lib['A']().compute_consensus_rankings(dataset, scheme, True), list(ch.picked)
            except harness.HarnessError:
                raise
            except Exception as e:
                return 'exc', e, list(ch.picked)
        nsched = 0
        for cs, trace, (status, c, picked) in chooser.explore(run, max_runs=5000):
            nsched += 1
            ctx.evals += 1
            case = {'cfg': {}, 'dataset': ds, 'labels': lname, 'n': n, 'scheme': s, 'schedule': cs,
                    'mutated_in_place_from': origin}
            if status == 'exc':
                ctx.violation('kwiksort-raises', case, None, None, exc=c)
                continue
            if len(c.consensus_rankings) != 1:
                ctx.violation('kwiksort-number-of-rankings', case, len(c.consensus_rankings), 1)
                continue
            bad = wellformed(c.consensus_rankings[0], back, universe)
            if bad:
                ctx.violation('kwiksort-malformed', case, bad, None)
                continue
            got = back.ranking(c.consensus_rankings[0])
            results.add(got)
            # (a) placement relative to the recorded pivots
            try:
                pivots = [back.elem(p) for p in picked]
            except Exception:
                raise harness.HarnessError("pivot outside the universe: %r" % (picked,))
            it = iter(pivots)
            try:
                sim = refmodel.ref_kwiksort(list(universe), table, it)
            except StopIteration:
                ctx.violation('kwiksort-fewer-pivot-draws-than-recursion-steps', case, pivots, None)
                continue
            except refmodel.PivotMismatch as e:
                ctx.violation('kwiksort-placement', case, got, None, message='pivots %r: %s' % (pivots, e))
                continue
            if list(it):
                ctx.violation('kwiksort-more-pivot-draws-than-recursion-steps', case, pivots, None)
                continue
            want = refmodel.canon(sim)
            if got != want:
                ctx.violation('kwiksort-placement', case, got, want, message='pivots %r' % (pivots,))
            # (b) coherent preferences: every schedule returns W
            if W is not None and got != W:
                ctx.violation('kwiksort-pivot-dependent-on-coherent-input', case, got, W, message='pivots %r' % (pivots,))
        ctx.count('schedules', nsched)
        if W is not None:
            ctx.count('coherent_cases')
            if len(universe) >= 3:
                ctx.nontrivial += 1
        if len(results) > 1:
            ctx.count('cases_with_pivot_dependent_result')
        ctx.outcome((W, tuple(sorted(results))))
    ctx.sample({'dataset': ds, 'labels': lname, 'last_scheme_schedules': nsched, 'coherent_order': W})


def histories(ctx, ds0, lname, n, schemes):
    """run -> mutate in place -> run again on the SAME dataset object (all pivot schedules after the mutation)."""
    from ..lib import labels_for, mutation_histories, prepare_mutated, mk_scheme
    labels = labels_for(lname, n)
    for what, after in mutation_histories(ds0):
        for s in schemes:
            so = mk_scheme(s)

            def warm(dd):
                with chooser.Chooser([]):
                    _lib['A']().compute_consensus_rankings(dd, so, True)
            d = prepare_mutated(ds0, labels, what, warm=warm)
            check_case(ctx, after, lname, n, [s], dataset_obj=d, origin=[ds0, what], scheme_objs={s: so})
            ctx.count('cases_after_run_mutate_on_the_same_dataset_object')


def run_shard(sh):
    ctx = Ctx(ID)
    schemes = scheme_list(sh.get('schemes'))
    for index, ds in spaces.ds_iter_strided(sh['n'], sh['m'], sh['shard'], sh['nshards']):
        before = ctx.cases
        check_case(ctx, ds, sh['labels'], sh['n'], schemes)
        if sh.get('histories'):
            histories(ctx, ds, sh['labels'], sh['n'], [spaces.UNIFYING, spaces.B3LTB4])
        ctx.count('dataset_scheme_cases', ctx.cases - before)
        ctx.cases = before + 1
    return ctx.result()


def replay(ctx, c):
    if c.get('mutated_in_place_from'):
        histories(ctx, tt(c['mutated_in_place_from'][0]), c['labels'], c['n'], [scheme_of(c['scheme'])])
    else:
        check_case(ctx, tt(c['dataset']), c['labels'], c['n'], [scheme_of(c['scheme'])])


def summarize(tier, seed, merged, phases):
    c = merged['counters']
    cov = {'rule': 'every dataset of the DS blocks x scheme list x ALL pivot schedules (whole choice tree of '
                   'random.choice, no deviation bound needed: <= n! leaves). (a) every schedule: result == reference '
                   'KwikSort fed the recorded pivots (cheapest placement from ref_table, tie preferred, then before); '
                   '(b) if that relation is antisymmetric and a weak order W, every schedule returns W; (c) identical '
                   'complete rankings with B2>0, T0>0 are asserted coherent and returned unchanged. transitions = '
                   'schedules executed; non-trivial = coherent cases with >= 3 elements',
           'schedules': c.get('schedules', 0)}
    guards = [('coherent cases', c.get('coherent_cases', 0)), ('identical-ranking cases', c.get('identical_ranking_cases', 0)),
              ('pivot dependent cases', c.get('cases_with_pivot_dependent_result', 0))]
    return cov, ['pivot draws reach the library only through random.choice (any other source raises)'], guards

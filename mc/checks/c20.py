"""C20 — random dataset generators deliver valid datasets of the requested shape.
The Markov chain is explored as a transition system (BFS to closure over the real step functions,
the chooser answering every randint), the public generators under ALL random walks of a bounded grid."""
import math
from collections import deque
import numpy as np
from .. import spaces, harness, chooser
from ..harness import Ctx, watchdog

ID = 'C20'
_lib = {}


def plan(tier, seed):
    shards = []
    nmax = 6 if tier == 'quick' else 7
    for n in range(1, nmax + 1):
        for complete in (False, True):
            shards.append({'kind': 'bfs', 'n': n, 'complete': complete})
    grid = []
    if tier == 'quick':
        for n in (1, 2, 3):
            for m in (1, 2):
                for steps in (0, 1, 2):
                    grid.append((n, m, steps))
        grid += [(2, 1, 3), (2, 1, 4), (1, 1, 4), (3, 1, 3), (4, 1, 2), (1, 3, 2)]
    else:
        for n in (1, 2, 3):
            for m in (1, 2):
                for steps in (0, 1, 2):
                    grid.append((n, m, steps))
        grid += [(2, 1, 3), (2, 1, 4), (2, 1, 5), (1, 1, 5), (3, 1, 3), (3, 1, 4), (4, 1, 2), (4, 1, 3), (5, 1, 2),
                 (2, 2, 3), (1, 3, 2), (2, 3, 2), (4, 2, 1), (3, 3, 1)]
    for (n, m, steps) in grid:
        for complete in (False, True):
            for api in ('rankings', 'dataset'):
                # split the choice tree on the first two draws (element, move) of the first ranking
                if steps >= 1 and (5 * n) ** (steps * m) > 20000:
                    for e in range(n):
                        for a in range(4 if complete else 5):
                            shards.append({'kind': 'walks', 'n': n, 'm': m, 'steps': steps, 'complete': complete,
                                           'api': api, 'prefix': [e, a]})
                else:
                    shards.append({'kind': 'walks', 'n': n, 'm': m, 'steps': steps, 'complete': complete, 'api': api,
                                   'prefix': []})
    pm = [(1, 1), (2, 1), (3, 1), (4, 1), (2, 2), (3, 2), (4, 2), (1, 3), (2, 3)] + ([(5, 1), (3, 3)] if tier != 'quick' else [])
    for (n, m) in pm:
        for api in ('rankings', 'dataset'):
            shards.append({'kind': 'perms', 'n': n, 'm': m, 'api': api})
    # histories of generator calls in one process: every ordered pair of sizes, every ordered pair of modes
    for api in ('rankings', 'dataset'):
        shards.append({'kind': 'history', 'api': api})
    return [{'name': 'generators', 'cfg': {}, 'shards': shards}]


def init_worker(cfg):
    harness.import_library(False)
    from corankco.ranking import Ranking
    from corankco.dataset import Dataset, EmptyDatasetException
    from corankco.element import Element
    _lib.update(R=Ranking, D=Dataset, Empty=EmptyDatasetException, E=Element)
    priv = {}
    for name in ('step_element_incomplete', 'step_element_complete', 'change_ranking_incomplete',
                 'change_ranking_complete'):
        priv[name] = getattr(Ranking, '_Ranking__' + name, None)
    _lib['priv'] = priv


def state_key(vec, missing):
    return (tuple(int(x) for x in vec), tuple(sorted(missing)))


def invariant(vec, missing, n, complete):
    """None if fine else reason: ids of ranked elements are exactly 0..max, -1 <=> missing."""
    ids = [int(x) for x in vec]
    if len(ids) != n:
        return 'vector length %d' % len(ids)
    ranked = [x for x in ids if x >= 0]
    if any(x < -1 for x in ids):
        return 'id below -1'
    if ranked and set(ranked) != set(range(max(ranked) + 1)):
        return 'bucket ids not dense: %r' % (ids,)
    miss_by_vec = set(i for i, x in enumerate(ids) if x == -1)
    if miss_by_vec != set(missing):
        return 'missing set %r disagrees with vector %r' % (sorted(missing), ids)
    if complete and miss_by_vec:
        return 'element unranked in complete mode'
    return None


def buckets_of(vec):
    ids = [int(x) for x in vec]
    k = max(ids) + 1 if ids else 0
    out = [[] for _ in range(max(k, 0))]
    for e, b in enumerate(ids):
        if b >= 0:
            out[b].append(e)
    return tuple(tuple(b) for b in out)


def run_bfs(ctx, sh):
    n, complete = sh['n'], sh['complete']
    R = _lib['R']
    step = _lib['priv']['step_element_complete' if complete else 'step_element_incomplete']
    if step is None:
        ctx.count('bfs_skipped_private_step_function_renamed')
        ctx.cases += 1
        return
    nalea = 4 if complete else 5
    init = (tuple(range(n)), ())
    seen = {init}
    frontier = deque([init])
    depth = {init: 0}
    maxdepth = 0
    ntrans = 0
    while frontier:
        st = frontier.popleft()
        for elem in range(n):
            for alea in range(nalea):
                vec = np.array(st[0], dtype=int)
                missing = set(st[1])
                ch = chooser.Chooser([alea])
                with ch:
                    try:
                        if complete:
                            step(vec, elem)
                        else:
                            step(vec, elem, missing)
                    except Exception as e:
                        ctx.violation('markov-step-raises', {'cfg': {}, 'kind': 'bfs', 'n': n, 'complete': complete,
                                                             'state': st, 'elem': elem, 'alea': alea + 1}, None, None, exc=e)
                        continue
                if len(ch.trace) != 1 or ch.trace[0][1] != nalea:
                    raise harness.HarnessError("step drew %r, expected one randint(1,%d)" % (ch.trace, nalea))
                ntrans += 1
                ctx.evals += 1
                bad = invariant(vec, missing, n, complete)
                nxt = state_key(vec, missing)
                if bad:
                    ctx.violation('markov-invariant', {'cfg': {}, 'kind': 'bfs', 'n': n, 'complete': complete,
                                                       'state': st, 'elem': elem, 'alea': alea + 1}, nxt, bad)
                    continue  # do not expand a broken state
                if nxt not in seen:
                    seen.add(nxt)
                    depth[nxt] = depth[st] + 1
                    maxdepth = max(maxdepth, depth[nxt])
                    frontier.append(nxt)
    ctx.cases += len(seen)
    ctx.nontrivial += len(seen)
    expect = spaces.FUBINI[n] if complete else spaces.SWO_COUNT[n]
    ctx.count('bfs_states_n%d_%s' % (n, 'complete' if complete else 'incomplete'), len(seen))
    if len(seen) == expect:
        ctx.count('bfs_closed_on_all_weak_orders')
    else:
        ctx.count('bfs_closed_on_fewer_states')
    ctx.count('bfs_max_depth_sum', maxdepth)
    ctx.outcome(('bfs', n, complete, len(seen)))
    # conversion of EVERY reachable state to buckets, through the public generator: the private walk is replaced
    # by a stub that installs the state (degrades silently if the private name disappears)
    walk_name = '_Ranking__change_ranking_complete' if complete else '_Ranking__change_ranking_incomplete'
    orig = R.__dict__.get(walk_name)
    if orig is None:
        ctx.count('conversion_skipped_private_walk_renamed')
    else:
        try:
            for st in sorted(seen):
                if complete:
                    def stub(ranking, steps, nb_elements, _st=st):
                        ranking[:] = _st[0]
                else:
                    def stub(ranking, steps, nb_elements, missing_elements, _st=st):
                        ranking[:] = _st[0]
                        missing_elements.update(_st[1])
                setattr(R, walk_name, staticmethod(stub))
                ctx.evals += 1
                case = {'cfg': {}, 'kind': 'convert', 'n': n, 'complete': complete, 'state': st}
                try:
                    with chooser.Chooser([]):
                        res = R.generate_rankings(n, 1, 0, complete)
                except Exception as e:
                    ctx.violation('conversion-raises', case, None, buckets_of(st[0]), exc=e)
                    continue
                want = buckets_of(st[0])
                got = [tuple(tuple(sorted(e.value for e in b)) for b in r) for r in res]
                exp = [want] if len(want) > 0 else []
                if got != exp:
                    ctx.violation('conversion-wrong', case, got, exp)
                ctx.count('conversions_checked')
        finally:
            setattr(R, walk_name, orig)
    ctx.sample({'kind': 'bfs', 'n': n, 'complete': complete, 'states': len(seen), 'transitions': ntrans,
                'max_depth': maxdepth, 'closed': True})


def check_rankings(ctx, case, res, n, m, complete, is_perm=False):
    """oracle for a list of library Rankings produced by a generator."""
    R, E = _lib['R'], _lib['E']
    if not isinstance(res, list):
        ctx.violation('generator-result-type', case, repr(type(res)), 'list of Ranking')
        return False
    ok = True
    lo, hi = (1, n) if is_perm else (0, n - 1)
    for r in res:
        if not isinstance(r, R):
            ctx.violation('generator-result-type', case, repr(type(r)), 'Ranking')
            return False
        seen = set()
        for b in r.buckets:
            if len(b) == 0:
                ctx.violation('generator-empty-bucket', case, str(r), None)
                ok = False
            for e in b:
                if not isinstance(e, E) or e.type is not int or not (lo <= e.value <= hi):
                    ctx.violation('generator-foreign-element', case, repr(e), 'int in %d..%d' % (lo, hi))
                    ok = False
                elif e.value in seen:
                    ctx.violation('generator-duplicate-element', case, str(r), None)
                    ok = False
                else:
                    seen.add(e.value)
            if is_perm and len(b) != 1:
                ctx.violation('permutation-has-ties', case, str(r), None)
                ok = False
        if (complete or is_perm) and seen != set(range(lo, hi + 1)):
            ctx.violation('generator-not-complete', case, str(r), 'all %d elements' % n)
            ok = False
        # views agree with buckets
        if r.nb_elements != len(seen) or set(x.value for x in r.domain) != seen:
            ctx.violation('generator-views', case, [r.nb_elements, str(r.domain)], sorted(seen))
            ok = False
    if (complete or is_perm) and len(res) != m:
        ctx.violation('generator-number-of-rankings', case, len(res), m)
        ok = False
    if not complete and not is_perm and len(res) > m:
        ctx.violation('generator-too-many-rankings', case, len(res), m)
        ok = False
    return ok


def run_walks(ctx, sh):
    R, D = _lib['R'], _lib['D']
    n, m, steps, complete, api = sh['n'], sh['m'], sh['steps'], sh['complete'], sh['api']
    walks = 0

    def run(ch):
        if api == 'rankings':
            return ('ok', R.generate_rankings(n, m, steps, complete))
        try:
            return ('ok', D.get_random_dataset_markov(n, m, steps, complete))
        except _lib['Empty'] as e:
            return ('empty', e)

    def run_guarded(ch):
        try:
            return run(ch)
        except harness.HarnessError:
            raise
        except Exception as e:
            return ('exc', e)

    # restrict to the sub-tree below sh['prefix'] by forcing the first choices
    prefix = list(sh['prefix'])
    stack = [prefix]
    while stack:
        pre = stack.pop()
        ch = chooser.Chooser(pre)
        with ch:
            with watchdog(30):
                status, res = run_guarded(ch)
        if ch.i < len(pre):
            raise harness.HarnessError("prefix not consumed")
        cs = ch.choices()
        for i in range(len(pre), len(ch.trace)):
            for alt in range(ch.trace[i][1] - 1, 0, -1):
                stack.append(cs[:i] + [alt])
        walks += 1
        ctx.evals += 1
        expected_draws = 2 * steps * m
        case = {'cfg': {}, 'kind': 'walks', 'n': n, 'm': m, 'steps': steps, 'complete': complete, 'api': api,
                'choices': cs}
        if len(cs) != expected_draws and status != 'exc':
            ctx.count('walks_with_unexpected_number_of_draws')
        if status == 'exc':
            ctx.violation('generator-raises', case, None, None, exc=res)
            continue
        if status == 'empty':
            ctx.count('empty_dataset_exceptions')
            if complete:
                ctx.violation('empty-exception-in-complete-mode', case, 'EmptyDatasetException', 'a dataset')
            else:
                # legitimate only if every ranking lost every element: replay the same walk on the rankings API
                tr, (st2, rk) = chooser.run_with(lambda c: ('ok', R.generate_rankings(n, m, steps, complete)), cs)
                if any(r.nb_elements > 0 for r in rk):
                    ctx.violation('empty-exception-but-elements-remain', case, [str(r) for r in rk], None)
            continue
        if api == 'rankings':
            ok = check_rankings(ctx, case, res, n, m, complete)
            if ok and any(len(r) > 1 for r in res):
                ctx.nontrivial += 1
            ctx.outcome(tuple(str(r) for r in res))
        else:
            if not isinstance(res, D):
                ctx.violation('generator-result-type', case, repr(type(res)), 'Dataset')
                continue
            ok = check_rankings(ctx, case, list(res.rankings), n, m, complete)
            if complete:
                if not res.is_complete:
                    ctx.violation('dataset-not-flagged-complete', case, res.is_complete, True)
                if res.nb_rankings != m or res.nb_elements != n:
                    ctx.violation('dataset-shape', case, [res.nb_rankings, res.nb_elements], [m, n])
            if ok:
                ctx.nontrivial += 1
            ctx.outcome(str(res))
    ctx.cases += walks
    ctx.count('walks', walks)
    if not sh['prefix']:
        ctx.sample({'kind': 'walks', 'n': n, 'm': m, 'steps': steps, 'complete': complete, 'api': api, 'walks': walks})


def run_perms(ctx, sh):
    R, D = _lib['R'], _lib['D']
    n, m, api = sh['n'], sh['m'], sh['api']

    def run(ch):
        try:
            if api == 'rankings':
                return ('ok', R.uniform_permutations(n, m))
            return ('ok', D.get_uniform_permutation_dataset(n, m))
        except harness.HarnessError:
            raise
        except Exception as e:
            return ('exc', e)
    count = 0
    distinct = set()
    for cs, trace, (status, res) in chooser.explore(run, max_runs=500000):
        count += 1
        ctx.evals += 1
        case = {'cfg': {}, 'kind': 'perms', 'n': n, 'm': m, 'api': api, 'choices': cs}
        if status == 'exc':
            ctx.violation('permutation-generator-raises', case, None, None, exc=res)
            continue
        rk = res if api == 'rankings' else list(res.rankings)
        ok = check_rankings(ctx, case, rk, n, m, True, is_perm=True)
        if api == 'dataset':
            if not (res.is_complete and res.without_ties and res.nb_rankings == m and res.nb_elements == n):
                ctx.violation('permutation-dataset-flags', case, [res.is_complete, res.without_ties, res.nb_rankings,
                                                                  res.nb_elements], [True, True, m, n])
        distinct.add(tuple(str(r) for r in rk))
        if ok:
            ctx.nontrivial += 1
    ctx.cases += count
    ctx.count('permutation_schedules', count)
    if count == math.factorial(n) ** m and len(distinct) == count:
        ctx.count('permutation_grids_where_every_permutation_tuple_was_produced')
    ctx.outcome(('perms', n, m, len(distinct)))
    ctx.sample({'kind': 'perms', 'n': n, 'm': m, 'api': api, 'schedules': count, 'distinct_results': len(distinct)})


def run_history(ctx, sh):
    """a generator call must not depend on earlier calls: for every ordered pair of sizes (n1, n2) in 1..4 a
    permutation request of size n1 followed by one of size n2 (every shuffle outcome of the second); for every ordered
    pair of (n, complete) a Markov request followed by another (every walk of 1 step of the second)."""
    R, D = _lib['R'], _lib['D']
    api = sh['api']
    for n1 in (1, 2, 3, 4):
        for n2 in (1, 2, 3, 4):
            def run(ch):
                try:
                    if api == 'rankings':
                        return ('ok', R.uniform_permutations(n2, 2))
                    return ('ok', D.get_uniform_permutation_dataset(n2, 2))
                except harness.HarnessError:
                    raise
                except Exception as e:
                    return ('exc', e)
            # the earlier call, default outcome
            with chooser.Chooser([]):
                try:
                    R.uniform_permutations(n1, 1) if api == 'rankings' else D.get_uniform_permutation_dataset(n1, 1)
                except Exception:
                    pass
            stack = [[]]
            while stack:
                pre = stack.pop()
                # every schedule of the later call is preceded by the same earlier call
                with chooser.Chooser([]):
                    try:
                        R.uniform_permutations(n1, 1) if api == 'rankings' else D.get_uniform_permutation_dataset(n1, 1)
                    except Exception:
                        pass
                ch = chooser.Chooser(pre)
                with ch:
                    status, res = run(ch)
                cs = ch.choices()
                for i in range(len(pre), len(ch.trace)):
                    for alt in range(ch.trace[i][1] - 1, 0, -1):
                        stack.append(cs[:i] + [alt])
                ctx.evals += 1
                ctx.cases += 1
                case = {'cfg': {}, 'kind': 'history', 'api': api, 'first_size': n1, 'n': n2, 'm': 2, 'choices': cs}
                if status == 'exc':
                    ctx.violation('permutation-generator-raises', case, None, None, exc=res)
                    continue
                rk = res if api == 'rankings' else list(res.rankings)
                if check_rankings(ctx, case, rk, n2, 2, True, is_perm=True):
                    ctx.nontrivial += 1
                if api == 'dataset' and not (res.is_complete and res.without_ties and res.nb_elements == n2):
                    ctx.violation('permutation-dataset-flags', case, [res.is_complete, res.without_ties, res.nb_elements],
                                  [True, True, n2])
    for (na, ca) in ((2, False), (3, False), (2, True)):
        for (nb, cb) in ((2, False), (3, True), (2, True), (3, False)):
            def run2(ch):
                try:
                    if api == 'rankings':
                        return ('ok', R.generate_rankings(nb, 2, 1, cb))
                    return ('ok', D.get_random_dataset_markov(nb, 2, 1, cb))
                except _lib['Empty'] as e:
                    return ('empty', e)
                except harness.HarnessError:
                    raise
                except Exception as e:
                    return ('exc', e)
            stack = [[]]
            while stack:
                pre = stack.pop()
                # earlier call: a walk that removes an element when it can (choice index 4 = move 5 in incomplete mode)
                with chooser.Chooser([0, 3 if ca else 4, 1, 3 if ca else 4]):
                    try:
                        R.generate_rankings(na, 1, 2, ca)
                    except Exception:
                        pass
                ch = chooser.Chooser(pre)
                with ch:
                    status, res = run2(ch)
                cs = ch.choices()
                for i in range(len(pre), len(ch.trace)):
                    for alt in range(ch.trace[i][1] - 1, 0, -1):
                        stack.append(cs[:i] + [alt])
                ctx.evals += 1
                ctx.cases += 1
                case = {'cfg': {}, 'kind': 'history', 'api': api, 'first': [na, ca], 'n': nb, 'm': 2, 'steps': 1,
                        'complete': cb, 'choices': cs}
                if status == 'exc':
                    ctx.violation('generator-raises', case, None, None, exc=res)
                elif status == 'ok':
                    rk = res if api == 'rankings' else list(res.rankings)
                    if check_rankings(ctx, case, rk, nb, 2, cb):
                        ctx.nontrivial += 1
    ctx.count('generator_call_histories')
    ctx.sample({'kind': 'history', 'api': api})


def run_shard(sh):
    ctx = Ctx(ID)
    {'bfs': run_bfs, 'walks': run_walks, 'perms': run_perms, 'history': run_history}[sh['kind']](ctx, sh)
    return ctx.result()


def replay(ctx, c):
    k = c['kind']
    if k == 'history':
        return run_history(ctx, {'api': c['api']})
    if k in ('bfs', 'convert'):
        run_bfs(ctx, {'n': c['n'], 'complete': c['complete']})
    elif k == 'walks':
        run_walks(ctx, {'n': c['n'], 'm': c['m'], 'steps': c['steps'], 'complete': c['complete'], 'api': c['api'],
                        'prefix': []})
    else:
        run_perms(ctx, {'n': c['n'], 'm': c['m'], 'api': c['api']})


def summarize(tier, seed, merged, phases):
    c = merged['counters']
    cov = {
        'rule': 'Markov chain as a transition system: BFS to closure from [0..n-1] over the REAL private step functions '
                '(one transition per (element, move) with the chooser answering randint), n<=%d, both modes; invariant '
                'in every state: ranked ids exactly 0..max, -1 <=> missing; every reachable state converted to buckets '
                'through generate_rankings. Public generators under ALL random walks of the (n,m,steps) grid and all '
                'shuffle outcomes (every permutation tuple). states = BFS states + walks + permutation schedules; '
                'non-trivial = BFS states, walks giving >1 bucket' % (6 if tier == 'quick' else 7),
        'bfs_state_counts': {k: v for k, v in c.items() if k.startswith('bfs_states_')},
        'search_closed': True,
    }
    guards = [('BFS closed on all weak orders at least once', c.get('bfs_closed_on_all_weak_orders', 0)),
              ('walks', c.get('walks', 0)), ('conversions', c.get('conversions_checked', 0)),
              ('empty dataset exceptions seen', c.get('empty_dataset_exceptions', 0)),
              ('permutation schedules', c.get('permutation_schedules', 0))]
    return cov, ['n = 0 / m = 0 requests are not claimed', 'private step functions are reached through their mangled names; '
                 'if they are renamed the BFS part reports itself skipped and only the public walks remain'], guards

"""C09 — BioConsert is never worse than any of its starting points."""
from .. import spaces, refmodel, harness, algos, cross, chooser
from ..harness import Ctx
from ..lib import wellformed

ID = 'C09'
EPS = 1e-9
_lib = {}


def plan(tier, seed):
    alt = spaces.label_choices(seed, 1)[0]
    if tier == 'quick':
        blocks = [dict(n=3, m=2, labels='ints', schemes='all'), dict(n=2, m=3, labels='ints', schemes='six_t'),
                  dict(n=3, m=2, labels='ints', schemes='tiny', reuse=False),
                  dict(n=4, m=2, labels='ints', schemes='two', per=40, configs='det'),
                  dict(n=4, m=1, labels='ints', schemes='six_t'),
                  dict(n=3, m=2, labels=alt, schemes='two'),
                  dict(n=3, m=2, labels='ints', schemes='one', configs='det', premutate=True, reuse=False)]
    else:
        blocks = [dict(n=4, m=2, labels='ints', schemes='six', per=40), dict(n=3, m=3, labels='ints', schemes='four', per=40),
                  dict(n=5, m=1, labels='ints', schemes='six'), dict(n=4, m=2, labels=alt, schemes='two', per=40, configs='det'),
                  dict(n=2, m=4, labels='ints', schemes='four'),
                  dict(n=4, m=2, labels='ints', schemes='all', per=40, configs='det'),
                  dict(n=4, m=3, labels='ints', schemes='one', per=400, maxk=256, configs='few')]
    return cross.std_phases({'absent': blocks})


def init_worker(cfg):
    algos.init_mode(cfg['mode'])
    _lib['mode'] = cfg['mode']
    _lib['configs'] = cross.select_configs(cfg['mode'], lambda c: 'bio' in c.tags)
    _lib['det'] = [c for c in _lib['configs'] if 'kwik' not in c.tags]
    _lib['few'] = cross.select_configs(cfg['mode'], ['BioConsert', 'BioConsert[Copeland]', 'BioCo'])
    from corankco.algorithms.pickaperm.pickaperm import PickAPerm
    _lib['PickAPerm'] = PickAPerm


def oracle(ctx, info):
    from ..lib import mk_dataset, mk_scheme
    if info.status == 'refused':
        ctx.count('refused')
        return
    if info.status != 'ok':
        ctx.violation('bioconsert-raises' if info.status == 'exc' else 'bioconsert-timeout', info.case(), None, None,
                      exc=info.value if info.status == 'exc' else None)
        return
    rk = info.value.consensus_rankings
    if len(rk) == 0:
        ctx.violation('no-ranking', info.case(), 0, '>=1')
        return
    for r in rk:
        bad = wellformed(r, info.back, info.universe)
        if bad:
            ctx.violation('malformed-result', info.case(), bad, None)
            return
    got = info.rankings()
    scores = [info.ref.score(r) for r in got]
    best = scores[0]
    if max(scores) - min(scores) > EPS:
        ctx.violation('returned-rankings-of-different-score', info.case(), list(zip(got, scores)), None)
    worst = max(scores)
    tol = EPS
    if not info.cfg.starters:
        for r in info.ds:
            u = refmodel.canon(refmodel.unify(r, info.universe))
            if worst > info.ref.score(u) + tol:
                ctx.violation('worse-than-a-unified-input-ranking', info.case(start=u), [got, worst],
                              [u, info.ref.score(u)])
                break
        tied = (tuple(info.universe),)
        if worst > info.ref.score(tied) + tol:
            ctx.violation('worse-than-the-all-tied-ranking', info.case(start=tied), [got, worst],
                          [tied, info.ref.score(tied)])
        # default BioConsert never worse than PickAPerm wherever PickAPerm accepts the input
        if spaces.is_complete(info.ds) or refmodel.proportional(info.s, spaces.UNIFYING):
            try:
                p = _lib['PickAPerm']().compute_consensus_rankings(mk_dataset(info.ds, info.labels), mk_scheme(info.s), True)
                ps = info.ref.score(info.back.ranking(p.consensus_rankings[0]))
                ctx.count('compared_with_pickaperm')
                if worst > ps + tol:
                    ctx.violation('worse-than-pickaperm', info.case(), [got, worst], [str(p), ps])
            except Exception:
                ctx.count('pickaperm_unavailable')
        if any(info.ref.score(refmodel.canon(refmodel.unify(r, info.universe))) > worst + tol for r in info.ds):
            ctx.nontrivial += 1
    else:
        improved = False
        for sname, sfactory in info.cfg.starters:
            # the starter re-run alone on fresh objects under the SAME schedule (only KwikSort draws)
            ch = chooser.Chooser(info.choices if sname == 'KwikSort' else [])
            with ch:
                try:
                    sc = sfactory().compute_consensus_rankings(mk_dataset(info.ds, info.labels), mk_scheme(info.s), True)
                except Exception as e:
                    raise harness.HarnessError("starter %s failed alone although BioConsert ran: %r" % (sname, e))
            start = info.back.ranking(sc.consensus_rankings[0])
            sscore = info.ref.score(start)
            ctx.count('starter_comparisons')
            if worst > sscore + tol:
                ctx.violation('worse-than-starting-algorithm', info.case(starter=sname, start=start), [got, worst],
                              [start, sscore])
                break
            if sscore > worst + tol:
                improved = True
        if improved:
            ctx.nontrivial += 1
            ctx.count('runs_that_improved_on_a_starter')
    if spaces.first_appearance_order(info.ds) != sorted(info.universe):
        ctx.count('runs_where_id_order_differs_from_label_order')
    ctx.outcome((info.cfg.name, tuple(got)))
    if ctx.evals % 5000 == 1:
        ctx.sample(info.case(result=got, score=best))


def run_shard(sh):
    ctx = Ctx(ID)
    configs = _lib[sh.get('configs', 'configs')]
    cross.run_block(ctx, sh, _lib['mode'], configs, oracle)
    return ctx.result()


def replay(ctx, c):
    cross.replay_case(ctx, c, oracle)


def summarize(tier, seed, merged, phases):
    c = merged['counters']
    cov = {'rule': 'every dataset of the DS blocks x scheme list x 9 BioConsert configurations (no starters, [Copeland], '
                   '[Borda], [KwikSort], [PickAPerm], [Borda,Copeland], [Copeland,KwikSort], [Borda,KwikSort,PickAPerm], '
                   'BioCo) x both flags x ALL pivot schedules; oracle on ref_score: <= every unified input ranking and '
                   'the all-tied ranking (no starters), <= the first consensus of each starter re-run alone under the '
                   'same schedule, all returned rankings share one score, default BioConsert <= PickAPerm. DS(4,2) is in '
                   'the quick tier because id-order defects need 4 elements. non-trivial = run that strictly improved '
                   'on a starting point'}
    guards = [('starter comparisons', c.get('starter_comparisons', 0)), ('improved on a starter', c.get('runs_that_improved_on_a_starter', 0)),
              ('id order differs', c.get('runs_where_id_order_differs_from_label_order', 0)),
              ('compared with PickAPerm', c.get('compared_with_pickaperm', 0))]
    return cov, ['documented refusals (Borda / PickAPerm starters on incomplete data with a foreign scheme) are skipped'], guards

"""C17 — Dataset equality = same multiset of rankings, nothing else."""
from collections import Counter
from itertools import permutations, product
from .. import spaces, harness
from ..harness import Ctx

ID = 'C17'
_lib = {}


def plan(tier, seed):
    shards = []
    label_sets = ['collide_ints', 'collide_strs', 'letters', 'hash_equal_ints']
    for ls in label_sets:
        # (i)+(ii): every dataset (canonical presentation) vs its re-presentations / permutations / near misses
        for m in ((1, 2) if tier == 'quick' else (1, 2, 3)):
            k = 1 if m == 1 else (8 if m == 2 else 64)
            for s in range(k):
                shards.append({'kind': 'variants', 'labels': ls, 'n': 3, 'm': m, 'shard': s, 'nshards': k})
        shards.append({'kind': 'history', 'labels': ls, 'n': 3, 'm': 2, 'shard': 0, 'nshards': 2})
        shards.append({'kind': 'history', 'labels': ls, 'n': 3, 'm': 2, 'shard': 1, 'nshards': 2})
        # (iii) cross products
        k = 4
        for s in range(k):
            shards.append({'kind': 'cross_pres', 'labels': ls, 'n': 3, 'm': 1, 'shard': s, 'nshards': k})
        k = 32
        for s in range(k):
            shards.append({'kind': 'cross_canon', 'labels': ls, 'n': 3, 'ma': 2, 'mb': 2, 'shard': s, 'nshards': k})
        for s in range(4):
            shards.append({'kind': 'cross_canon', 'labels': ls, 'n': 3, 'ma': 1, 'mb': 2, 'shard': s, 'nshards': 4})
            shards.append({'kind': 'cross_canon', 'labels': ls, 'n': 3, 'ma': 2, 'mb': 1, 'shard': s, 'nshards': 4})
    if tier == 'thorough':
        for ls in ('collide_ints', 'collide_strs'):
            for s in range(32):
                shards.append({'kind': 'cross_pres', 'labels': ls, 'n': 4, 'm': 1, 'shard': s, 'nshards': 32})
            for s in range(64):
                shards.append({'kind': 'cross_pres', 'labels': ls, 'n': 3, 'm': 2, 'shard': s, 'nshards': 64})
            for s in range(16):
                shards.append({'kind': 'variants', 'labels': ls, 'n': 4, 'm': 2, 'shard': s, 'nshards': 16})
    shards.append({'kind': 'typed'})
    return [{'name': 'equality', 'cfg': {}, 'shards': shards}]


def colliding_strings(k):
    """k short strings whose hashes agree modulo 8 under this run's PYTHONHASHSEED (so that a set of them
    iterates in insertion order), found by enumeration."""
    buckets = {}
    for a in 'abcdefghijklmnopqrstuvwxyz':
        for b in 'abcdefghijklmnopqrstuvwxyz':
            s = 'e' + a + b
            buckets.setdefault(hash(s) & 31, []).append(s)
            if len(buckets[hash(s) & 31]) == k:
                return buckets[hash(s) & 31]
    raise harness.HarnessError("no colliding strings found")


def init_worker(cfg):
    harness.import_library(False)
    from corankco.dataset import Dataset
    from corankco.ranking import Ranking
    _lib['D'] = Dataset
    _lib['R'] = Ranking
    _lib['labels'] = {
        'collide_ints': [0, 8, 16, 24],
        'collide_strs': colliding_strings(4),
        'letters': ['a', 'b', 'c', 'd'],
        # ints whose FULL hashes are equal: hash(-1) == hash(-2) and hash(0) == hash(2**61 - 1)
        'hash_equal_ints': [-1, -2, 0, 2 ** 61 - 1],
    }
    if not (hash(-1) == hash(-2) and hash(0) == hash(2 ** 61 - 1)):
        raise harness.HarnessError("this interpreter does not hash -1/-2 and 0/2**61-1 alike")


def ordered_set(values):
    s = set()
    for v in values:
        s.add(v)
    return s


def presentations(r):
    """every way of handing the buckets of abstract ranking r over: each bucket in every insertion order."""
    return [tuple(p) for p in product(*[list(permutations(b)) for b in r])]


class ConstructionFailed(Exception):
    """the library refused to build a valid dataset (distinct labels, disjoint buckets)."""


def build(pres_list, labels, name):
    """pres_list: list of presentations (tuples of tuples giving insertion order)."""
    R, D = _lib['R'], _lib['D']
    try:
        d = D([R([ordered_set(labels[x] for x in b) for b in pres]) for pres in pres_list])
    except Exception as e:
        raise ConstructionFailed(pres_list, e)
    d.name = name
    return d


def structural(pres_list):
    return Counter(tuple(frozenset(b) for b in pres) for pres in pres_list)


def lib_matching(a, b):
    """multiplicity-preserving matching under the library's Ranking.__eq__."""
    ra, rb = list(a.rankings), list(b.rankings)
    if len(ra) != len(rb):
        return False
    used = [False] * len(rb)
    for x in ra:
        for j, y in enumerate(rb):
            if not used[j] and x == y:
                used[j] = True
                break
        else:
            return False
    return True


def compare(ctx, pa, pb, labels, lname, expect=None, with_matching=True):
    """build both datasets fresh and check ==, symmetry, != and agreement with the oracle."""
    a = build(pa, labels, 'name_a')
    b = build(pb, labels, 'other name')
    exp = structural(pa) == structural(pb)
    if expect is not None and exp != expect:
        raise harness.HarnessError("oracle disagrees with construction: %r %r" % (pa, pb))
    case = {'cfg': {}, 'labels': lname, 'a': pa, 'b': pb}
    ctx.cases += 1
    ctx.evals += 3
    try:
        ab = (a == b)
        ba = (b == a)
        ne = (a != b)
    except Exception as e:
        ctx.violation('eq-raises', case, None, exp, exc=e)
        return
    if ab is not exp:
        ctx.violation('eq-wrong' if exp else 'eq-false-positive', case, ab, exp,
                      message='str(a)=%s str(b)=%s' % (a, b))
    if ab is not ba:
        ctx.violation('eq-not-symmetric', case, [ab, ba], exp)
    if ne is ab:
        ctx.violation('ne-inconsistent', case, [ab, ne], exp)
    if with_matching:
        mt = lib_matching(a, b)
        if mt is not exp:
            ctx.violation('ranking-eq-inconsistent', case, mt, exp)
    if exp:
        ctx.nontrivial += 1
        if str(a) != str(b):
            ctx.count('equal_but_printed_differently')
    ctx.outcome((ab, exp, len(pa), len(pb)))


def near_misses(ds, n):
    """datasets differing from ds by one moved element, one changed multiplicity, one dropped/added empty ranking."""
    out = []
    for i, r in enumerate(ds):
        for _, _, _, nr in spaces.single_element_moves(r):
            out.append(ds[:i] + (nr,) + ds[i + 1:])
        out.append(ds[:i] + ds[i + 1:] + ((),) if r != () else ds[:i] + ds[i + 1:] + (((0,),),))  # replaced by empty
    out.append(ds + (ds[0],))          # one multiplicity up
    out.append(ds + ((),))             # one empty ranking added
    if len(ds) > 1:
        out.append(ds[1:])             # one ranking dropped
        if ds[0] != ds[1]:
            out.append((ds[0],) + ds[:1] + ds[2:])  # multiplicities (2,0) instead of (1,1)
    return [d for d in out if len(d) > 0 and any(len(r) > 0 for r in d)]


def run_variants(ctx, sh):
    labels = _lib['labels'][sh['labels']]
    n, m = sh['n'], sh['m']
    for index, ds in spaces.ds_iter_strided(n, m, sh['shard'], sh['nshards']):
        canon = [r for r in ds]
        a_pres = [tuple(b for b in r) for r in canon]
        # reflexive on the same object
        a = build(a_pres, labels, 'x')
        ctx.evals += 1
        if not (a == a):
            ctx.violation('not-reflexive', {'cfg': {}, 'labels': sh['labels'], 'a': a_pres, 'b': a_pres}, False, True)
        # every re-presentation (bounded: all presentations of each ranking, all ranking permutations)
        pres_each = [presentations(r) for r in canon]
        for combo in product(*pres_each):
            for perm in set(permutations(range(m))):
                pb = [combo[i] for i in perm]
                compare(ctx, a_pres, pb, labels, sh['labels'], expect=True)
        for nm in near_misses(ds, n):
            if structural(nm) != structural(ds):
                compare(ctx, a_pres, list(nm), labels, sh['labels'], expect=False)
                ctx.count('near_misses')
    ctx.sample({'kind': 'variants', 'labels': sh['labels'], 'n': n, 'm': m, 'concrete_labels': labels})


def run_cross_pres(ctx, sh):
    labels = _lib['labels'][sh['labels']]
    n, m = sh['n'], sh['m']
    allp = []
    for r in spaces.sub_weak_orders(n):
        allp.extend(presentations(r))
    if m == 1:
        items = [[p] for p in allp if len(p) > 0]
    else:
        items = [[p, q] for p in allp for q in allp if len(p) + len(q) > 0]
    for i in range(sh['shard'], len(items), sh['nshards']):
        for j in range(len(items)):
            compare(ctx, items[i], items[j], labels, sh['labels'], with_matching=(m == 1))
    ctx.count('presentations', len(allp) if sh['shard'] == 0 else 0)


def run_cross_canon(ctx, sh):
    labels = _lib['labels'][sh['labels']]
    n = sh['n']
    A = [list(ds) for _, ds in spaces.ds_iter_strided(n, sh['ma'], sh['shard'], sh['nshards'])]
    B = [list(ds) for _, ds in spaces.ds_iter_strided(n, sh['mb'], 0, 1)]
    # B in reversed presentation so that equal datasets are never built the same way
    for a in A:
        for b in B:
            compare(ctx, a, [tuple(tuple(reversed(bb)) for bb in r) for r in b], labels, sh['labels'])


def run_history(ctx, sh):
    """equality after in-place mutations: a dataset object that has already been compared is mutated
    (remove_empty_rankings / remove_elements) and compared again with fresh datasets."""
    from ..lib import mutation_histories, mutate_in_place
    labels = _lib['labels'][sh['labels']]
    n, m = sh['n'], sh['m']
    for index, ds0 in spaces.ds_iter_strided(n, m, sh['shard'], sh['nshards']):
        for what, after in mutation_histories(ds0):
            a = build([tuple(r) for r in ds0], labels, 'mutated')
            twin0 = build([tuple(r) for r in ds0], labels, 'twin')
            ctx.evals += 4
            try:
                warm = (a == twin0, a == a, twin0 == a)
                mutate_in_place(a, labels, what)
                fresh_after = build([tuple(r) for r in after], labels, 'fresh')
                got_after = (a == fresh_after, fresh_after == a)
                got_before = (a == twin0, twin0 == a)
            except Exception as e:
                ctx.violation('eq-raises-after-mutation', {'cfg': {}, 'kind': 'history', 'labels': sh['labels'], 'a': list(ds0),
                                                           'mutation': what}, None, None, exc=e)
                continue
            exp_before = structural([tuple(r) for r in after]) == structural([tuple(r) for r in ds0])
            ctx.cases += 1
            ctx.nontrivial += 1
            case = {'cfg': {}, 'kind': 'history', 'labels': sh['labels'], 'a': list(ds0), 'mutation': what, 'n': n}
            if warm != (True, True, True):
                ctx.violation('eq-wrong', case, warm, True)
            if got_after != (True, True):
                ctx.violation('mutated-dataset-not-equal-to-its-fresh-equivalent', case, got_after, True)
            if got_before != (exp_before, exp_before):
                ctx.violation('mutated-dataset-still-compares-as-before-the-mutation', case, got_before, exp_before)
            ctx.count('equality_histories')


def run_typed(ctx):
    """int-like strings are normalised to ints by the constructor, so these contain the same rankings."""
    D = _lib['D']
    pairs = [([[{0}, {8, 16}]], [[{'0'}, {'16', '8'}]], True), ([[{1}], [{2}]], [[{'2'}], [{'1'}]], True),
             ([[{'a'}, {'1'}]], [[{'a'}, {'1'}]], True), ([[{'a', '1'}]], [[{'a'}, {'1'}]], False)]
    for ra, rb, exp in pairs:
        ctx.cases += 1
        ctx.evals += 1
        a, b = D.from_raw_list(ra), D.from_raw_list(rb)
        if (a == b) is not exp:
            ctx.violation('typed-eq', {'cfg': {}, 'kind': 'typed', 'a': repr(ra), 'b': repr(rb)}, a == b, exp)


def run_shard(sh):
    ctx = Ctx(ID)
    try:
        _run_shard(ctx, sh)
    except ConstructionFailed as cf:
        # equality cannot even be asked: reported once per shard, the rest of the shard is not explored
        ctx.violation('valid-dataset-cannot-be-constructed', {'cfg': {}, 'kind': 'construct', 'labels': sh.get('labels'),
                                                              'a': [list(map(list, p)) for p in cf.args[0]], 'b': []},
                      None, 'a dataset', exc=cf.args[1])
    return ctx.result()


def _run_shard(ctx, sh):
    {'variants': run_variants, 'cross_pres': run_cross_pres, 'cross_canon': run_cross_canon, 'history': run_history}.get(
        sh['kind'], lambda c, s: run_typed(c))(ctx, sh)


def replay(ctx, c):
    if c.get('kind') == 'typed':
        return run_typed(ctx)
    if c.get('kind') == 'construct':
        try:
            build([tuple(tuple(b) for b in r) for r in c['a']], _lib['labels'][c['labels']], 'x')
        except ConstructionFailed as cf:
            ctx.violation('valid-dataset-cannot-be-constructed', c, None, 'a dataset', exc=cf.args[1])
        return
    if c.get('kind') == 'history':
        swo = spaces.sub_weak_orders(c['n'])
        ds0 = tuple(tuple(tuple(b) for b in r) for r in c['a'])
        index = 0
        for r in ds0:
            index = index * len(swo) + swo.index(r)
        return run_history(ctx, {'labels': c['labels'], 'n': c['n'], 'm': len(ds0), 'shard': index, 'nshards': len(swo) ** len(ds0)})
    labels = _lib['labels'][c['labels']]
    tt = lambda p: [tuple(tuple(b) for b in r) for r in p]
    compare(ctx, tt(c['a']), tt(c['b']), labels, c['labels'])


def summarize(tier, seed, merged, phases):
    cov = {
        'rule': 'universes of 3 (thorough 4) labels: hash-colliding ints 0,8,16(,24), strings found at run time to '
                'collide modulo 32 under the run PYTHONHASHSEED, plain letters. (i) every dataset of DS(3,m<=2|3) vs '
                'every re-presentation (each bucket in every insertion order) and every ranking permutation: must be '
                'equal; (ii) vs every single-element move / multiplicity change / dropped or added (empty) ranking: '
                'must differ; (iii) full cross products: all presentations at m=1, canonical-vs-reversed at m=2 x m=2, '
                'm=1 x m=2. Each pair: ==, symmetry, !=, and agreement with a matching under Ranking.__eq__. '
                'non-trivial = structurally equal pairs',
    }
    c = merged['counters']
    guards = [('equal datasets that print differently', c.get('equal_but_printed_differently', 0)),
              ('near misses', c.get('near_misses', 0))]
    return cov, ['CPython set iteration order for colliding keys = insertion order (asserted by the guard)'], guards

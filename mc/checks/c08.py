"""C08 — BioConsert returns a local optimum of the Kemeny score.
(i) public API: every returned ranking, every single-element move, on the reference score;
(ii) the local search as a transition system: every start state in WO(n) for every cost matrix of the
block, macro step (_improve_one_ranking) and micro step (one element: delta arrays -> search -> move)."""
import numpy as np
from .. import spaces, refmodel, harness, algos, cross
from ..harness import Ctx
from ..lib import wellformed, ds_shards

ID = 'C08'
THRESH = 0.001
EPS = 1e-9
_lib = {}


def plan(tier, seed):
    alt = spaces.label_choices(seed, 1)[0]
    if tier == 'quick':
        api = [dict(n=3, m=2, labels='ints', schemes='all'), dict(n=4, m=1, labels='ints', schemes='six'),
               dict(n=4, m=2, labels='ints', schemes='two', per=40, configs='det'),
               dict(n=3, m=2, labels=alt, schemes='two'),
               dict(n=3, m=2, labels='ints', schemes='one', configs='det', premutate=True, reuse=False)]
        ker = [dict(n=4, m=1, schemes='four'), dict(n=3, m=2, schemes='all'), dict(n=4, m=2, schemes='one_b', per=100)]
    else:
        api = [dict(n=4, m=2, labels='ints', schemes='all', per=40, configs='det'),
               dict(n=4, m=2, labels='ints', schemes='four', per=40, configs='kwik'),
               dict(n=3, m=3, labels='ints', schemes='six', per=40), dict(n=5, m=1, labels='ints', schemes='all'),
               dict(n=4, m=2, labels=alt, schemes='two', per=40, configs='det')]
        ker = [dict(n=5, m=1, schemes='four'), dict(n=4, m=2, schemes='four', per=100), dict(n=3, m=3, schemes='four', per=100)]
    phases = cross.std_phases({'absent': api})
    shards = ds_shards(ker, per=20, kind='kernel')
    # per-block 'per' override
    shards = []
    for b in ker:
        shards.extend(ds_shards([b], per=b.get('per', 20), maxk=b.get('maxk', 64), kind='kernel'))
    phases[0]['shards'].extend(shards)
    return phases


def init_worker(cfg):
    algos.init_mode(cfg['mode'])
    _lib['mode'] = cfg['mode']
    bio = cross.select_configs(cfg['mode'], lambda c: 'bio' in c.tags)
    _lib['configs'] = bio
    _lib['det'] = [c for c in bio if 'kwik' not in c.tags]
    _lib['kwik'] = [c for c in bio if 'kwik' in c.tags]
    import corankco.algorithms.bioconsert.bioconsert as b
    from corankco.algorithms.pairwisebasedalgorithm import PairwiseBasedAlgorithm
    _lib['P'] = PairwiseBasedAlgorithm
    _lib['k'] = {name: getattr(b, name, None) for name in (
        '_improve_one_ranking', '_compute_delta_costs', '_search_to_change_bucket', '_search_to_add_bucket',
        '_change_bucket', '_add_bucket')}


# ------------------------------------------------------------------ (i) public API

def oracle(ctx, info):
    if info.status == 'refused':
        ctx.count('refused')
        return
    if info.status != 'ok':
        ctx.violation('bioconsert-raises' if info.status == 'exc' else 'bioconsert-timeout', info.case(), None, None,
                      exc=info.value if info.status == 'exc' else None)
        return
    for r in info.value.consensus_rankings:
        bad = wellformed(r, info.back, info.universe)
        if bad:
            ctx.violation('malformed-result', info.case(), bad, None)
            return
    for got in info.rankings():
        base = info.ref.score(got)
        nmoves = 0
        for x, kind, target, new in spaces.single_element_moves(got):
            nmoves += 1
            sc = info.ref.score(new)
            if sc < base - THRESH - EPS:
                ctx.violation('result-improvable-by-one-move', info.case(result=got, move=[x, kind, target], better=new),
                              [got, base], [new, sc])
                break
        ctx.count('moves_examined', nmoves)
        if nmoves > 0:
            ctx.nontrivial += 1
    ctx.outcome((info.cfg.name, tuple(info.rankings())))
    if ctx.evals % 4000 == 1:
        ctx.sample(info.case(result=info.rankings()))


# ------------------------------------------------------------------ (ii) kernels as a transition system

def vec_to_ranking(vec):
    k = max(vec) + 1
    b = [[] for _ in range(k)]
    for e, x in enumerate(vec):
        b[x].append(e)
    return tuple(tuple(x) for x in b)


def dense(vec):
    return len(vec) == 0 or (min(vec) == 0 and set(vec) == set(range(max(vec) + 1)))


def start_vectors(n):
    out = []
    for w in spaces.weak_orders(tuple(range(n))):
        pos = refmodel.bucket_index(w)
        out.append(tuple(pos[e] for e in range(n)))
    return out


def kernel_matrix(ctx, M, n, case, micro=True):
    k = _lib['k']
    table = {(i, j): tuple(M[i, j]) for i in range(n) for j in range(n) if i != j}
    m1d = np.ascontiguousarray(M.reshape(-1), dtype=np.float64)
    score_cache = {}

    def score(vec):
        vec = tuple(vec)
        v = score_cache.get(vec)
        if v is None:
            v = refmodel.score_from_table(vec_to_ranking(vec), table)
            score_cache[vec] = v
        return v

    def moves_of(vec, elem=None):
        r = vec_to_ranking(vec)
        for x, kind, target, new in spaces.single_element_moves(r):
            if elem is None or x == elem:
                yield x, new
    starts = start_vectors(n)
    for st in starts:
        ctx.cases += 1
        harness.mark(dict(case, start=st))
        base = score(st)
        scale = 1.0   # absolute tolerances: dyadic penalties, exact float arithmetic
        # macro step: the whole sweep from this start
        if k['_improve_one_ranking'] is not None:
            r = np.array(st, dtype=np.int32)
            ctx.evals += 1
            try:
                delta = float(k['_improve_one_ranking'](r, m1d, n))
            except Exception as e:
                ctx.violation('kernel-sweep-raises', dict(case, start=st), None, None, exc=e)
                continue
            fin = tuple(int(x) for x in r)
            c2 = dict(case, start=st, final=fin)
            if not dense(fin):
                ctx.violation('kernel-sweep-vector-not-dense', c2, fin, None)
                continue
            fs = score(fin)
            if abs(base + delta - fs) > 1e-9 * scale:
                ctx.violation('kernel-sweep-delta-wrong', c2, base + delta, fs)
            if fs > base + 1e-9 * scale:
                ctx.violation('kernel-sweep-increases-score', c2, fs, base)
            for x, new in moves_of(fin):
                if refmodel.score_from_table(new, table) < fs - THRESH - 1e-9 * scale:
                    ctx.violation('kernel-sweep-ends-in-non-local-optimum', dict(c2, better=new), fs,
                                  refmodel.score_from_table(new, table))
                    break
            if fin != st:
                ctx.nontrivial += 1
            ctx.outcome(fin)
        # micro step: one element from this state
        if micro and all(k[x] is not None for x in k):
            max_id = max(st)
            for elem in range(n):
                ctx.evals += 1
                r = np.array(st, dtype=np.int32)
                change = np.zeros(n + 2)
                add = np.zeros(n + 3)
                be = int(r[elem])
                c2 = dict(case, start=st, element=elem)
                try:
                    alone = int(k['_compute_delta_costs'](r, elem, m1d, be, change, add, n))
                    to = int(k['_search_to_change_bucket'](be, change, max_id))
                    kind = None
                    if to >= 0:
                        claimed = float(change[to])
                        k['_change_bucket'](r, n, elem, be, to, alone)
                        kind = 'change'
                    else:
                        to = int(k['_search_to_add_bucket'](be, add, max_id))
                        if to >= 0:
                            claimed = float(add[to])
                            k['_add_bucket'](r, n, elem, be, to, alone)
                            kind = 'add'
                except Exception as e:
                    ctx.violation('kernel-step-raises', c2, None, None, exc=e)
                    continue
                is_alone = sum(1 for x in st if x == be) == 1
                if bool(alone) != is_alone:
                    ctx.violation('kernel-step-alone-flag', c2, alone, is_alone)
                if kind is None:
                    ctx.count('micro_steps_without_move')
                    for x, new in moves_of(st, elem):
                        sc = refmodel.score_from_table(new, table)
                        if sc < base - THRESH - 1e-9 * scale:
                            ctx.violation('kernel-step-misses-an-improving-move', dict(c2, better=new), base, sc)
                            break
                    continue
                ctx.count('micro_steps_with_move')
                succ = tuple(int(x) for x in r)
                c3 = dict(c2, kind=kind, to=to, successor=succ)
                if not dense(succ):
                    ctx.violation('kernel-step-successor-not-dense', c3, succ, None)
                    continue
                legal = set(new for x, new in moves_of(st, elem))
                if vec_to_ranking(succ) not in legal:
                    ctx.violation('kernel-step-is-not-a-single-element-move', c3, vec_to_ranking(succ), None)
                    continue
                true_delta = score(succ) - base
                if abs(true_delta - claimed) > 1e-9 * scale:
                    ctx.violation('kernel-step-claimed-delta-wrong', c3, claimed, true_delta)
                if not claimed < -THRESH:
                    ctx.violation('kernel-step-takes-a-non-improving-move', c3, claimed, '< -0.001')


def run_kernel(ctx, sh):
    from ..lib import mk_dataset, mk_scheme, labels_for
    n = sh['n']
    labels = labels_for('ints', n)
    schemes = cross.SCHEME_KINDS[sh['schemes']]
    seen = set()
    before_cases = ctx.cases
    for index, ds in spaces.ds_iter_strided(n, sh['m'], sh['shard'], sh['nshards']):
        dataset = mk_dataset(ds, labels)
        k = dataset.nb_elements
        if k < 2:
            continue
        pos = dataset.get_positions()
        for s in schemes:
            M = _lib['P'].pairwise_cost_matrix(pos, mk_scheme(s))
            key = M.tobytes()
            if key in seen:
                ctx.count('duplicate_matrices_skipped')
                continue
            seen.add(key)
            ctx.count('distinct_cost_matrices')
            kernel_matrix(ctx, M, k, {'cfg': {'mode': _lib['mode']}, 'kind': 'kernel', 'dataset': ds, 'n': n, 'scheme': s},
                          micro=sh.get('micro', True))
    ctx.count('kernel_start_states', ctx.cases - before_cases)
    if any(v is None for v in _lib['k'].values()):
        ctx.count('kernel_level_degraded_private_names_missing')
    ctx.sample({'kind': 'kernel', 'block': [n, sh['m']], 'schemes': sh['schemes'], 'starts_per_matrix': 'all of WO(k)'})


def run_shard(sh):
    ctx = Ctx(ID)
    if sh.get('kind') == 'kernel':
        run_kernel(ctx, sh)
    else:
        cross.run_block(ctx, sh, _lib['mode'], _lib[sh.get('configs', 'configs')], oracle, flags=(False, True))
    return ctx.result()


def replay(ctx, c):
    from ..lib import mk_dataset, mk_scheme, labels_for, tt, scheme_of
    if c.get('kind') == 'kernel':
        ds = tt(c['dataset'])
        dataset = mk_dataset(ds, labels_for('ints', c['n']))
        M = _lib['P'].pairwise_cost_matrix(dataset.get_positions(), mk_scheme(scheme_of(c['scheme'])))
        kernel_matrix(ctx, M, dataset.nb_elements, {'cfg': c['cfg'], 'kind': 'kernel', 'dataset': ds, 'n': c['n'],
                                                     'scheme': c['scheme']})
    else:
        cross.replay_case(ctx, c, oracle)


def summarize(tier, seed, merged, phases):
    c = merged['counters']
    cov = {'rule': '(i) every dataset of the API blocks x schemes x 9 BioConsert configurations x both flags x all pivot '
                   'schedules: every returned ranking, EVERY single-element move (into each other bucket, into a new '
                   'bucket at each position) on the reference score, threshold 0.001. (ii) local search as a transition '
                   'system: every distinct cost matrix of the kernel blocks x EVERY start state of WO(k): the real sweep '
                   '(claimed delta == true delta, never increases, ends in a local optimum, vector dense) and, per '
                   '(state, element), one real micro step delta-arrays -> search -> move (successor is a legal '
                   'single-element move, claimed delta exact and < -0.001, and no move taken only if none improves). '
                   'states = datasets + kernel start states; non-trivial = results with moves / sweeps that moved',
           'kernel_start_states': c.get('kernel_start_states', 0),
           'moves_examined': c.get('moves_examined', 0)}
    guards = [('moves examined', c.get('moves_examined', 0)), ('distinct cost matrices', c.get('distinct_cost_matrices', 0)),
              ('micro steps with move', c.get('micro_steps_with_move', 0)),
              ('micro steps without move', c.get('micro_steps_without_move', 0))]
    return cov, ['kernel level reaches the private jitted functions named in the anchors; if renamed it degrades to (i) '
                 'and says so (counter kernel_level_degraded_private_names_missing)',
                 'a non-terminating jitted kernel cannot be interrupted from Python: the parent kills the pool after its '
                 'shard timeout and reports a harness error'], guards

"""C15 — computing a consensus never modifies its inputs; results are repeatable.
Transition system: state = complete __dict__ snapshot of (dataset, scheme); every event must be a
self-loop; pairs of events on shared objects are compared with the same event on fresh copies."""
import os
import numpy as np
from .. import spaces, refmodel, harness, algos, cross, chooser
from ..harness import Ctx, watchdog
from ..lib import ds_shards

ID = 'C15'
_lib = {}


def plan(tier, seed):
    alts = spaces.label_choices(seed, 2)
    if tier == 'quick':
        by_mode = {
            'absent_enum': [dict(n=3, m=2, labels='ints', schemes='c15', what='loops'),
                            dict(n=2, m=3, labels='ints', schemes='c15', what='loops'),
                            dict(n=3, m=2, labels='letters', schemes='one', what='loops'),
                            dict(n=3, m=2, labels=alts[0], schemes='one', what='loops'),
                            dict(n=2, m=2, labels='ints', schemes='two', what='pairs', per=2),
                            dict(n=3, m=1, labels='letters', schemes='one', what='pairs', per=2),
                            dict(n=3, m=2, labels='ints', schemes='one', what='probe', per=10),
                            dict(n=3, m=3, labels='ints', schemes='ext', what='loops', per=200, nontrivial_only=True,
                                 events='decomposing')],
            'stub': [dict(n=3, m=2, labels='ints', schemes='two', what='loops'),
                     dict(n=2, m=2, labels='ints', schemes='one', what='pairs', per=2)],
            'absent': [dict(n=2, m=2, labels='ints', schemes='two', what='loops', per=2)],
        }
    else:
        by_mode = {
            'absent_enum': [dict(n=4, m=2, labels='ints', schemes='three', what='loops', per=60),
                            dict(n=3, m=3, labels='ints', schemes='three', what='loops', per=60),
                            dict(n=3, m=2, labels='letters', schemes='three', what='loops'),
                            dict(n=3, m=2, labels=alts[0], schemes='three', what='loops'),
                            dict(n=3, m=2, labels=alts[1], schemes='three', what='loops'),
                            dict(n=3, m=2, labels='mixed_strings', schemes='one', what='loops'),
                            dict(n=2, m=3, labels='ints', schemes='two', what='pairs', per=2),
                            dict(n=3, m=2, labels='ints', schemes='one', what='pairs', per=3, maxk=256),
                            dict(n=4, m=2, labels='ints', schemes='one', what='probe', per=60)],
            'stub': [dict(n=4, m=2, labels='ints', schemes='two', what='loops', per=60),
                     dict(n=3, m=2, labels='ints', schemes='one', what='pairs', per=3, maxk=256)],
            'absent': [dict(n=3, m=2, labels='ints', schemes='one', what='loops', per=6)],
        }
    return cross.std_phases(by_mode)


def init_worker(cfg):
    mode = cfg['mode']
    algos.init_mode(mode)
    _lib['mode'] = mode
    _lib['tmp'] = cfg.get('worker_tmp') or cfg.get('tmpdir')
    _lib['counter'] = 0
    from corankco.element import Element
    from corankco.ranking import Ranking
    from corankco.dataset import Dataset
    from corankco.scoringscheme import ScoringScheme
    from corankco.consensus import Consensus
    from corankco.partitioning.ordered_partition import OrderedPartition
    from corankco.kemeny_score_computation import KemenyComputingFactory
    _lib.update(E=Element, R=Ranking, D=Dataset, S=ScoringScheme, C=Consensus, OP=OrderedPartition, K=KemenyComputingFactory)
    _lib['events'] = build_events(mode)


# ------------------------------------------------------------------ snapshots

def freeze(x, depth=0):
    E, R, D, S = _lib['E'], _lib['R'], _lib['D'], _lib['S']
    if depth > 12:
        return ('deep', repr(x))
    if isinstance(x, E):
        return ('E', x.__dict__['_type'].__name__, x.__dict__['_value'])
    if isinstance(x, (R, D, S)):
        return (type(x).__name__, freeze(x.__dict__, depth + 1))
    if isinstance(x, dict):
        return ('dict', tuple((freeze(k, depth + 1), freeze(v, depth + 1)) for k, v in x.items()))
    if isinstance(x, (list, tuple)):
        return (type(x).__name__, tuple(freeze(v, depth + 1) for v in x))
    if isinstance(x, (set, frozenset)):
        return ('set', frozenset(freeze(v, depth + 1) for v in x))
    if isinstance(x, np.ndarray):
        return ('nd', x.shape, str(x.dtype), x.tobytes())
    if isinstance(x, (np.floating, np.integer)):
        return ('num', float(x))
    if isinstance(x, float):
        return ('num', x)
    if isinstance(x, (int, str, bool, type(None))):
        return x
    if isinstance(x, type):
        return ('type', x.__name__)
    return ('obj', type(x).__name__, freeze(getattr(x, '__dict__', repr(x)), depth + 1))


def snapshot(d, s):
    return (freeze(d), freeze(s))


def result_of(value):
    """canonical, comparable form of what an event returned."""
    C, OP = _lib['C'], _lib['OP']
    if isinstance(value, C):
        feats = {}
        for k, v in value.features.items():
            feats[str(k)] = freeze(v)
        return ('consensus', freeze(list(value.consensus_rankings)), tuple(sorted(feats.items(), key=repr)))
    if isinstance(value, OP):
        return ('partition', freeze(value.partition))
    return freeze(value)


# ------------------------------------------------------------------ events

class Event:
    def __init__(self, name, fn, random=False):
        self.name, self.fn, self.random = name, fn, random


def fresh_path():
    _lib['counter'] += 1
    return os.path.join(_lib['tmp'], 'c15_%d_%d.txt' % (os.getpid(), _lib['counter']))


def build_events(mode):
    E, R, D, S, OP, K = (_lib[k] for k in ('E', 'R', 'D', 'S', 'OP', 'K'))
    evs = []
    for cfg in algos.all_configs(mode):
        for one in (True, False):
            def run(d, s, _cfg=cfg, _one=one):
                refusals = algos.documented_refusals()
                try:
                    c = _cfg.factory().compute_consensus_rankings(d, s, _one)
                except refusals as e:
                    return ('refused', type(e).__name__)
                # reading the score and the description are part of the event
                ks = c.kemeny_score
                desc = c.description()
                return ('ok', result_of(c), freeze(ks), desc)
            evs.append(Event('%s one=%s' % (cfg.name, one), run, random=bool({'kwik', 'enum'} & cfg.tags)))

    def first_candidate(d):
        return R([set(d.universe)])
    misc = {
        'str': lambda d, s: (str(d), repr(d), str(s), repr(s)),
        'description': lambda d, s: (d.description(), s.description()),
        'parcons_partition': lambda d, s: result_of(OP.parcons_partition(d, s)),
        'parfront_partition': lambda d, s: result_of(OP.parfront_partition(d, s)),
        'get_kemeny_score': lambda d, s: float(K(s).get_kemeny_score(first_candidate(d), d)),
        'unified_rankings': lambda d, s: freeze(d.unified_rankings()),
        'unified_dataset': lambda d, s: freeze(d.unified_dataset()),
        'sub_problem_from_elements': lambda d, s: freeze(d.sub_problem_from_elements({sorted(d.universe, key=str)[0]})),
        'sub_problem_from_ids': lambda d, s: freeze(d.sub_problem_from_ids({0})),
        'get_positions': lambda d, s: freeze(d.get_positions()),
        'get_bucket_ids': lambda d, s: freeze(d.get_bucket_ids()),
        'scheme_times_2': lambda d, s: (freeze(s * 2), freeze(0.5 * s)),
        'equivalence': lambda d, s: (s.is_equivalent_to(S.get_unifying_scoring_scheme()),
                                     s.is_equivalent_to_on_complete_rankings_only(S.get_pseudodistance_scoring_scheme()),
                                     s.get_nickname()),
        'accessors': lambda d, s: (freeze(d.rankings), freeze(d.universe), freeze(d.mapping_elem_id), freeze(d.mapping_id_elem),
                                   d.nb_elements, d.nb_rankings, d.is_complete, d.without_ties, d.name,
                                   freeze(s.penalty_vectors), freeze(s.b_vector), freeze(s.t_vector),
                                   freeze([r.positions for r in d.rankings]), freeze([r.domain for r in d.rankings])),
        'eq_contains_iter': lambda d, s: (d == d, d.contains_element(0), len(list(iter(d))), freeze(d[0])),
    }
    for name, fn in misc.items():
        evs.append(Event(name, fn))

    def write(d, s):
        p = fresh_path()
        try:
            d.write(p)
            with open(p) as f:
                return f.read()
        finally:
            if os.path.exists(p):
                os.unlink(p)
    evs.append(Event('write', write))
    return evs


def run_event(ev, d, s, choices=None):
    """('ok', result, trace) or ('exc', exception, trace); always inside a chooser."""
    ch = chooser.Chooser(choices or [])
    with ch:
        try:
            with watchdog(60):
                return 'ok', ev.fn(d, s), ch.trace
        except (harness.HarnessError, harness.UnownedRandomness):
            raise
        except Exception as e:
            return 'exc', e, ch.trace


def make_inputs(ds, labels, s):
    from ..lib import mk_dataset, mk_scheme
    return mk_dataset(ds, labels, name='c15 dataset'), mk_scheme(s)


def same(a, b):
    return a == b


def describe_diff(before, after):
    return 'dataset %s, scheme %s' % ('CHANGED' if before[0] != after[0] else 'same',
                                      'CHANGED' if before[1] != after[1] else 'same')


# ------------------------------------------------------------------ the three explorations

def loops(ctx, ds, lname, n, s, labels):
    """every event, every schedule: self-loop on the snapshot; every event twice: equal results."""
    for ev in _lib['events']:
        base_case = {'cfg': {'mode': _lib['mode']}, 'what': 'loops', 'dataset': ds, 'labels': lname, 'n': n, 'scheme': s,
                     'event': ev.name}
        stack = [[]]
        nsched = 0
        while stack:
            prefix = stack.pop()
            nsched += 1
            if nsched > 400:
                break   # choice tree of this event larger than the stated cap of 400 schedules; counted below
            d, sc = make_inputs(ds, labels, s)
            before = snapshot(d, sc)
            harness.mark(dict(base_case, schedule=prefix))
            st, res, trace = run_event(ev, d, sc, prefix)
            ctx.evals += 1
            cs = [c for _, _, c in trace]
            for i in range(len(prefix), len(trace)):
                for alt in range(trace[i][1] - 1, 0, -1):
                    stack.append(cs[:i] + [alt])
            case = dict(base_case, schedule=cs)
            after = snapshot(d, sc)
            if after != before:
                ctx.violation('inputs-modified', case, describe_diff(before, after), None,
                              exc=res if st == 'exc' else None)
                continue
            if st == 'exc':
                ctx.count('events_raising')   # C03/C14's business; the inputs were still left untouched
                continue
            # same event again on the SAME objects under the same schedule
            st2, res2, _ = run_event(ev, d, sc, cs)
            ctx.evals += 1
            if st2 != "ok" or not same(res, res2):
                ctx.violation('second-call-gives-a-different-result', case, repr(res2)[:300], repr(res)[:300],
                              exc=res2 if st2 == 'exc' else None)
            elif snapshot(d, sc) != before:
                ctx.violation('inputs-modified', dict(case, call='second'), describe_diff(before, snapshot(d, sc)), None)
            ctx.count('self_loops')
        if nsched > 400:
            ctx.count('events_whose_schedule_tree_hit_the_cap_of_400')
        ctx.outcome((ev.name,))


def pairs(ctx, ds, lname, n, s, labels, firsts=None, seconds=None):
    """all ordered pairs of events on shared objects vs the second event alone on fresh copies (default schedule)."""
    evs = _lib['events']
    fresh = {}
    for b in (seconds or evs):
        d, sc = make_inputs(ds, labels, s)
        fresh[b.name] = run_event(b, d, sc)[:2]
        ctx.evals += 1
    for a in (firsts or evs):
        for b in (seconds or evs):
            d, sc = make_inputs(ds, labels, s)
            before = snapshot(d, sc)
            case = {'cfg': {'mode': _lib['mode']}, 'what': 'pairs', 'dataset': ds, 'labels': lname, 'n': n, 'scheme': s,
                    'first': a.name, 'second': b.name}
            harness.mark(case)
            run_event(a, d, sc)
            st, res, _ = run_event(b, d, sc)
            ctx.evals += 2
            fst, fres = fresh[b.name]
            if st != fst or (st == 'ok' and not same(res, fres)) or (st == 'exc' and type(res) is not type(fres)):
                ctx.violation('result-depends-on-an-earlier-call', case, repr(res)[:300], repr(fres)[:300])
            if snapshot(d, sc) != before:
                ctx.violation('inputs-modified', case, describe_diff(before, snapshot(d, sc)), None)
            ctx.count('pairs')
    ctx.nontrivial += 1


def run_shard(sh):
    from ..lib import labels_for
    ctx = Ctx(ID)
    labels = labels_for(sh['labels'], sh['n'])
    what = sh['what']
    evs = _lib['events']
    probes = [e for e in evs if e.name in ('BioConsert one=False', 'ParCons one=True', 'KwikSort one=True', 'Borda one=True',
                                           'get_kemeny_score', 'unified_rankings', 'parfront_partition', 'accessors')]
    all_events = _lib['events']
    if sh.get('events') == 'decomposing':
        # the configurations that split the problem into components and solve sub-problems
        _lib['events'] = [e for e in all_events if e.name.startswith(('ParCons', 'Exact')) or e.name in (
            'parcons_partition', 'parfront_partition')]
    for index, ds in spaces.ds_iter_strided(sh['n'], sh['m'], sh['shard'], sh['nshards']):
        if sh.get('nontrivial_only'):
            u = spaces.universe_of(ds)
            if not any(refmodel.nontrivial_components(u, refmodel.ref_table(u, ds, s[0], s[1]))
                       for s in cross.SCHEME_KINDS[sh['schemes']]):
                continue
            ctx.count('datasets_with_a_component_that_cannot_be_all_tied')
        ctx.cases += 1
        for s in cross.SCHEME_KINDS[sh['schemes']]:
            if what == 'loops':
                loops(ctx, ds, sh['labels'], sh['n'], s, labels)
                if not spaces.is_complete(ds):
                    ctx.nontrivial += 1
            elif what == 'pairs':
                pairs(ctx, ds, sh['labels'], sh['n'], s, labels)
            else:
                pairs(ctx, ds, sh['labels'], sh['n'], s, labels, firsts=evs, seconds=probes)
    _lib['events'] = all_events
    ctx.sample({'what': what, 'block': [sh['n'], sh['m']], 'labels': sh['labels'], 'events': [e.name for e in evs][:60],
                'mode': _lib['mode']})
    return ctx.result()


def replay(ctx, c):
    from ..lib import labels_for, tt, scheme_of
    ds, s = tt(c['dataset']), scheme_of(c['scheme'])
    labels = labels_for(c['labels'], c['n'])
    if c['what'] == 'loops':
        saved = _lib['events']
        _lib['events'] = [e for e in saved if e.name == c['event']]
        try:
            loops(ctx, ds, c['labels'], c['n'], s, labels)
        finally:
            _lib['events'] = saved
    else:
        evs = _lib['events']
        pairs(ctx, ds, c['labels'], c['n'], s, labels, firsts=[e for e in evs if e.name == c['first']],
              seconds=[e for e in evs if e.name == c['second']])


def summarize(tier, seed, merged, phases):
    c = merged['counters']
    cov = {'rule': 'transition system whose state is the COMPLETE __dict__ snapshot of (dataset, rankings, buckets, '
                   'elements, positions, id maps, flags, name, scheme penalties). events (~75): every algorithm '
                   'configuration x both flags incl. reading kemeny_score and description(), str/repr, descriptions, both '
                   'partitions, get_kemeny_score, unified rankings/dataset, both projections, both matrices, write, scheme '
                   'scaling, equivalence tests, nickname, all accessors. (1) every event under every schedule from every '
                   'dataset of the blocks: self-loop on the snapshot (=> by induction every sequence leaves the inputs '
                   'unchanged; the search closes at depth 1 with one state per start) and the same event run twice on the '
                   'same objects gives equal results; (2) ALL ordered pairs of events on shared objects vs the second '
                   'event alone on fresh copies (hidden global state); (3) every event followed by 8 probe events on the '
                   'larger block. states = start datasets; transitions = event executions',
           'self_loops': c.get('self_loops', 0), 'pairs': c.get('pairs', 0)}
    guards = [('self loops', c.get('self_loops', 0)), ('pairs', c.get('pairs', 0))]
    return cov, ['events that raise (undocumented exceptions are C03/C14 business) must still leave the inputs untouched',
                 'schedule trees of one event are capped at 400 schedules; the counter '
                 'events_whose_schedule_tree_hit_the_cap_of_400 reports how often (0 expected at these sizes)'], guards

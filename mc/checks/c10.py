"""C10 — PickAPerm returns exactly the best input rankings."""
from .. import spaces, refmodel, harness
from ..harness import Ctx, watchdog
from ..lib import ds_shards, ds_expected, tt, scheme_of, EarlierResults

ID = 'C10'
_lib = {}
ACCIDENTAL = (TypeError, KeyError, IndexError, AttributeError, NameError, ZeroDivisionError, RecursionError,
              UnboundLocalError)


def scale(s, k):
    return (tuple(x * k for x in s[0]), tuple(x * k for x in s[1]))


SCHEMES = [s for _, s in spaces.SCHQ] + [scale(spaces.UNIFYING, 2), scale(spaces.UNIFYING, 0.5),
                                         ((0., 1., 1., 0., 1., 1.), (1., 1., 0., 1., 1., 1.))]


def plan(tier, seed):
    alt = spaces.label_choices(seed, 1)[0]
    if tier == 'quick':
        blocks = [dict(n=3, m=2, labels='ints', histories=True), dict(n=2, m=3, labels='ints'), dict(n=3, m=2, labels=alt),
                  dict(n=4, m=2, labels='ints', schemes='core'), dict(n=3, m=3, labels='ints', schemes='core')]
    else:
        blocks = [dict(n=4, m=2, labels='ints'), dict(n=3, m=3, labels='ints'), dict(n=2, m=4, labels='ints'),
                  dict(n=4, m=2, labels=alt, schemes='core'), dict(n=5, m=2, labels='ints', schemes='core2')]
    return [{'name': 'pickaperm', 'cfg': {}, 'shards': ds_shards(blocks), 'expected_cases': ds_expected(blocks)}]


def init_worker(cfg):
    harness.import_library(False)
    from corankco.algorithms.pickaperm.pickaperm import PickAPerm
    _lib.update(A=PickAPerm)


def check_case(ctx, ds, lname, n, schemes, dataset_obj=None, alg_obj=None, origin=None, scheme_objs=None):
    from ..lib import mk_dataset, mk_scheme, labels_for, Back, wellformed
    labels = labels_for(lname, n)
    universe = spaces.universe_of(ds)
    dataset = dataset_obj if dataset_obj is not None else mk_dataset(ds, labels)
    back = Back(labels, universe)
    complete = spaces.is_complete(ds)
    cands = [refmodel.canon(refmodel.unify(r, universe)) for r in ds]
    for s in schemes:
        accepted = complete or refmodel.proportional(s, spaces.UNIFYING)
        scheme = scheme_objs[s] if scheme_objs and s in scheme_objs else mk_scheme(s)
        scores = [refmodel.ref_score(c, ds, s[0], s[1]) for c in cands]
        best = min(scores)
        minimal = set(c for c, v in zip(cands, scores) if v <= best + 1e-9)
        ctx.cases += 1
        for one, reused in ((True, False), (False, False), (False, True), (True, True)):
            case = {'cfg': {}, 'dataset': ds, 'labels': lname, 'n': n, 'scheme': s, 'one': one, 'reused_object': reused,
                    'mutated_in_place_from': origin}
            ctx.evals += 1
            if alg_obj is not None:
                alg = alg_obj
            elif reused:
                alg = _lib.setdefault('inst', _lib['A']())
                case['reused_after'] = list(_lib.setdefault('hist', [])[-2:])
                _lib['hist'].append({'dataset': ds, 'scheme': s})
                del _lib['hist'][:-2]
                ctx.count('executions_on_a_reused_algorithm_object')
            else:
                alg = _lib['A']()
            try:
                with watchdog(30):
                    c = alg.compute_consensus_rankings(dataset, scheme, one)
            except ACCIDENTAL as e:
                ctx.violation('pickaperm-crashes', case, None, None, exc=e)
                continue
            except Exception as e:
                if accepted:
                    ctx.violation('pickaperm-refuses-an-accepted-input', case, None, sorted(minimal), exc=e)
                else:
                    ctx.count('refusals')
                continue
            if not accepted:
                ctx.violation('pickaperm-accepts-incomplete-data-with-foreign-scheme', case, str(c.consensus_rankings),
                              'an exception')
                continue
            rk = c.consensus_rankings
            try:
                _ = c.kemeny_score   # the lazy score is written once; snapshots are taken after it
            except Exception:
                pass                 # a consensus that cannot be scored is reported by the structural checks below
            _lib.setdefault('earlier', EarlierResults()).check_and_remember(ctx, ('pick', reused), c, case)
            if len(rk) < 1 or (one and len(rk) != 1):
                ctx.violation('pickaperm-number-of-rankings', case, len(rk), 1 if one else '>=1')
                continue
            got = []
            malformed = False
            for r in rk:
                bad = wellformed(r, back, universe)
                if bad:
                    ctx.violation('pickaperm-malformed', case, bad, None)
                    malformed = True
                    break
                got.append(back.ranking(r))
            if malformed:
                continue
            for g in got:
                if g not in cands:
                    ctx.violation('pickaperm-returns-a-non-input-ranking', case, g, cands)
                    break
                if g not in minimal:
                    ctx.violation('pickaperm-returns-a-non-minimal-ranking', case, g, sorted(minimal))
                    break
            else:
                if not one and set(got) != minimal:
                    ctx.violation('pickaperm-misses-a-minimal-ranking', case, sorted(set(got)), sorted(minimal))
        if accepted and len(minimal) > 1:
            ctx.count('cases_with_several_distinct_minima')
        if accepted and len(set(cands)) > len(minimal):
            ctx.nontrivial += 1
        if accepted and not complete:
            ctx.count('accepted_incomplete')
        ctx.outcome((tuple(sorted(minimal)), accepted))
    ctx.sample({'dataset': ds, 'labels': lname, 'candidates': cands})


def scheme_list(kind):
    if kind == 'core':
        return [spaces.UNIFYING, scale(spaces.UNIFYING, 0.5), spaces.PSEUDO, spaces.UNIF_B_OTHER_T, spaces.B3LTB4]
    if kind == 'core2':
        return [spaces.UNIFYING, spaces.B3LTB4]
    return SCHEMES


def histories(ctx, ds0, lname, n, schemes):
    """run -> mutate in place -> run again on the SAME dataset object and the SAME algorithm object."""
    from ..lib import labels_for, mutation_histories, prepare_mutated, mk_scheme
    labels = labels_for(lname, n)
    for what, after in mutation_histories(ds0):
        for s in schemes:
            alg = _lib['A']()
            so = mk_scheme(s)     # ONE scheme object for the run before and the run after the mutation
            d = prepare_mutated(ds0, labels, what, warm=lambda dd: alg.compute_consensus_rankings(dd, so, False))
            check_case(ctx, after, lname, n, [s], dataset_obj=d, alg_obj=alg, origin=[ds0, what], scheme_objs={s: so})
            ctx.count('executions_after_run_mutate_on_the_same_objects')


def run_shard(sh):
    ctx = Ctx(ID)
    schemes = scheme_list(sh.get('schemes'))
    for index, ds in spaces.ds_iter_strided(sh['n'], sh['m'], sh['shard'], sh['nshards']):
        before = ctx.cases
        check_case(ctx, ds, sh['labels'], sh['n'], schemes)
        if sh.get('histories'):
            histories(ctx, ds, sh['labels'], sh['n'], [spaces.UNIFYING, spaces.PSEUDO])
        ctx.count('dataset_scheme_cases', ctx.cases - before)
        ctx.cases = before + 1
    return ctx.result()


def replay(ctx, c):
    if c.get('reused_after'):
        # a long-lived object had served these inputs before: new persistent objects, same history, then the case
        for k in [k for k in _lib if k == 'inst' or (isinstance(k, tuple) and k and k[0] in ('inst', 'seq'))] + ['hist', 'earlier']:
            _lib.pop(k, None)
        scratch = Ctx(ID)
        for prev in c['reused_after']:
            check_case(scratch, tt(prev['dataset']), c['labels'], c['n'], [scheme_of(prev['scheme'])])
    if c.get('mutated_in_place_from'):
        histories(ctx, tt(c['mutated_in_place_from'][0]), c['labels'], c['n'], [scheme_of(c['scheme'])])
    else:
        check_case(ctx, tt(c['dataset']), c['labels'], c['n'], [scheme_of(c['scheme'])])


def summarize(tier, seed, merged, phases):
    c = merged['counters']
    cov = {'rule': 'every dataset of the DS blocks x (16 SCHq schemes + multiples of unifying + a near-unifying scheme) '
                   'x both flags; oracle: returned rankings are unified input rankings, each of minimal ref_score among '
                   'them; all requested => exactly the set of distinct minimal ones; incomplete data with a scheme that '
                   'is not a positive multiple of the unifying scheme (exact proportionality on B and T) => an exception. '
                   'non-trivial = accepted case where some input ranking is NOT minimal'}
    guards = [('refusals', c.get('refusals', 0)), ('several minima', c.get('cases_with_several_distinct_minima', 0)),
              ('accepted incomplete', c.get('accepted_incomplete', 0))]
    return cov, ['a refusal may be any deliberate exception; TypeError/KeyError/IndexError/... count as crashes'], guards

"""C19 — scoring schemes: validation, scaling and equivalence."""
import copy
from fractions import Fraction
from itertools import product
from .. import spaces, refmodel, harness
from ..harness import Ctx

ID = 'C19'
_lib = {}


def plan(tier, seed):
    shards = []
    grids = [('g012', (0, 1, 2)), ('gm101', (-1, 0, 1))]
    if tier == 'thorough':
        grids.append(('g0h12', (0, 0.5, 1, 2)))
    for gname, vals in grids:
        for a in vals:
            for b in vals:
                for asfloat in (False, True):
                    shards.append({'kind': 'validate', 'grid': vals, 'prefix': (a, b), 'float': asfloat})
    shards.append({'kind': 'malformed'})
    nsch = len(spaces.schemes_over([0, 1, 2]))
    k = 48
    for s in range(k):
        shards.append({'kind': 'equiv', 'shard': s, 'nshards': k, 'values': (0, 1, 2)})
    if tier == 'thorough':
        for s in range(k):
            shards.append({'kind': 'equiv', 'shard': s, 'nshards': k, 'values': (0, 0.5, 1, 3)})
    for s in range(8):
        shards.append({'kind': 'scale', 'shard': s, 'nshards': 8})
    n, m = (3, 2) if tier == 'quick' else (4, 2)
    ks = 32 if tier == 'quick' else 64
    for s in range(ks):
        shards.append({'kind': 'homog', 'n': n, 'm': m, 'shard': s, 'nshards': ks,
                       'factors': (0.5, 3) if tier == 'quick' else (0.5, 2, 3, 0.25)})
    return [{'name': 'schemes', 'cfg': {}, 'shards': shards}]


def init_worker(cfg):
    harness.import_library(False)
    import corankco.scoringscheme as ss
    from corankco.kemeny_score_computation import KemenyComputingFactory
    _lib['ss'] = ss
    _lib['K'] = KemenyComputingFactory


def expected_exception(B, T):
    """exception class name the documented precedence demands, or None if valid (well-shaped input)."""
    for v in list(B) + list(T):
        if v < 0:
            return 'NonRealPositiveValuesScoringScheme'
    if not (B[0] == 0 and B[1] > 0 and B[3] <= B[4] and T[0] == T[1] and T[2] == 0 and T[3] == T[4]):
        return 'ForbiddenAssociationPenaltiesScoringScheme'
    return None


def construct(ctx, pen, clause_case):
    """returns ('ok', obj) or ('exc', class name)."""
    ss = _lib['ss']
    ctx.evals += 1
    try:
        obj = ss.ScoringScheme(pen)
        return 'ok', obj
    except (ss.InvalidScoringScheme, ss.NonRealPositiveValuesScoringScheme,
            ss.ForbiddenAssociationPenaltiesScoringScheme) as e:
        return 'exc', type(e).__name__
    except Exception as e:
        ctx.violation('constructor-undocumented-exception', clause_case, None, None, exc=e)
        return 'bad', None


def check_validate_one(ctx, B, T):
    case = {'cfg': {}, 'kind': 'validate', 'B': list(B), 'T': list(T), 'float': isinstance(B[0], float)}
    ctx.cases += 1
    exp = expected_exception(B, T)
    pen = [list(B), list(T)]
    snapshot = copy.deepcopy(pen)
    st, val = construct(ctx, pen, case)
    if st == 'bad':
        return
    if exp is None:
        ctx.nontrivial += 1
        if st != 'ok':
            ctx.violation('valid-scheme-rejected', case, val, 'accepted')
            return
        pv = val.penalty_vectors
        if [list(map(float, B)), list(map(float, T))] != pv or not all(type(x) is float for v in pv for x in v):
            ctx.violation('stored-penalties-differ', case, pv, [list(B), list(T)])
        if val.b_vector != list(map(float, B)) or val.t_vector != list(map(float, T)):
            ctx.violation('accessor-mismatch', case, [val.b_vector, val.t_vector], [list(B), list(T)])
    else:
        if st == 'ok':
            ctx.violation('invalid-scheme-accepted', case, val.penalty_vectors, exp)
        elif val != exp:
            ctx.violation('wrong-exception-class', case, val, exp)
    if pen != snapshot:
        ctx.violation('constructor-mutates-argument', case, pen, snapshot)
    ctx.outcome((st, val if st == 'exc' else None))


MALFORMED = None


def malformed_menu():
    ok_b = [0, 1, 1, 0, 1, 1]
    ok_t = [1, 1, 0, 1, 1, 0]
    inv = 'InvalidScoringScheme'
    non = 'NonRealPositiveValuesScoringScheme'
    menu = [
        (None, inv), ('abc', inv), (5, inv), ({}, inv), ((ok_b, ok_t), inv), ([], inv), ([ok_b], inv),
        ([ok_b, ok_t, ok_t], inv), ([tuple(ok_b), ok_t], inv), ([ok_b, tuple(ok_t)], inv), ([ok_b, None], inv),
        ([None, ok_t], inv), ([ok_b[:5], ok_t], inv), ([ok_b, ok_t[:5]], inv), ([ok_b + [0], ok_t], inv),
        ([ok_b, ok_t + [0]], inv), ([[], []], inv), (['012345', ok_t], inv), ([ok_b, 'abcdef'], inv),
        # format fine, entries wrong -> value exception even if the association is also wrong
        ([[0, 1, None, 0, 1, 1], ok_t], non), ([[0, 1, '1', 0, 1, 1], ok_t], non), ([ok_b, [1, 1, 0, 1, 1, 1j]], non),
        ([[0, 1, 1, 0, 1, [1]], ok_t], non), ([[0, -1, 1, 0, 1, 1], ok_t], non), ([ok_b, [1, 1, 0, -0.5, 1, 0]], non),
        ([[0, 0, 1, 5, 1, -1], [2, 1, 0, 1, 1, 0]], non), ([[None] * 6, [None] * 6], non),
        ([[1, 1, 1, 1, 1, 1], ['x'] * 6], non),
    ]
    return menu


def run_malformed(ctx):
    for pen, exp in malformed_menu():
        case = {'cfg': {}, 'kind': 'malformed', 'penalties': repr(pen)}
        ctx.cases += 1
        ctx.nontrivial += 1
        st, val = construct(ctx, pen, case)
        if st == 'ok':
            ctx.violation('malformed-accepted', case, repr(val), exp)
        elif st == 'exc' and val != exp:
            ctx.violation('malformed-wrong-exception', case, val, exp)
        ctx.outcome(('malformed', st, val if st == 'exc' else None))
    # informational only (not judged): bool / nan / inf entries
    for pen in ([[0, True, 1, 0, 1, 1], [1, 1, 0, 1, 1, 0]], [[0, 1, float('nan'), 0, 1, 1], [1, 1, 0, 1, 1, 0]],
                [[0, float('inf'), 1, 0, 1, 1], [1, 1, 0, 1, 1, 0]]):
        try:
            _lib['ss'].ScoringScheme(pen)
            ctx.count('info_bool_nan_inf_accepted')
        except Exception:
            ctx.count('info_bool_nan_inf_rejected')


def norm(s, stop):
    b1 = Fraction(s[0][1])
    return tuple(Fraction(x) / b1 for x in s[0][:stop]) + tuple(Fraction(x) / b1 for x in s[1][:stop])


def build_valid(ctx, schemes):
    """library objects for schemes that ARE valid by the statement; a rejection is a violation of the validation
    clause (reported once per shard), the scheme is then skipped."""
    from ..lib import mk_scheme
    keep, objs = [], []
    for s in schemes:
        try:
            o = mk_scheme(s)
        except Exception as e:
            ctx.violation('valid-scheme-rejected', {'cfg': {}, 'kind': 'validate', 'B': list(s[0]), 'T': list(s[1]),
                                                    'float': True}, type(e).__name__, 'accepted')
            continue
        keep.append(s)
        objs.append(o)
    return keep, objs


def _mk_scheme_local(s):
    from ..lib import mk_scheme
    return mk_scheme(s)


def run_equiv(ctx, sh):
    schemes, objs = build_valid(ctx, spaces.schemes_over(sh['values']))
    n6 = [norm(s, 6) for s in schemes]
    n3 = [norm(s, 3) for s in schemes]
    for i in range(sh['shard'], len(schemes), sh['nshards']):
        a = objs[i]
        ctx.cases += 1
        # nickname
        ctx.evals += 1
        nick_exp = refmodel.nickname(schemes[i])
        try:
            nick = a.get_nickname()
        except Exception as e:
            ctx.violation('nickname-raises', {'cfg': {}, 'kind': 'nick', 'a': schemes[i]}, None, nick_exp, exc=e)
            nick = None
        else:
            want = nick_exp if nick_exp is not None else str(a)
            if nick != want:
                ctx.violation('nickname', {'cfg': {}, 'kind': 'nick', 'a': schemes[i]}, nick, want)
            if nick_exp is not None:
                ctx.count('nicknamed_schemes')
        # nickname asked after the object has answered every other kind of query
        if len(schemes) > 0:
            try:
                a3 = _mk_scheme_local(schemes[i])
                a3.is_equivalent_to_on_complete_rankings_only(objs[0])
                a3.is_equivalent_to(objs[-1])
                want = nick_exp if nick_exp is not None else str(a3)
                if a3.get_nickname() != want:
                    ctx.violation('nickname-depends-on-earlier-queries', {'cfg': {}, 'kind': 'nick', 'a': schemes[i]},
                                  a3.get_nickname(), want)
            except Exception as e:
                ctx.violation('nickname-raises', {'cfg': {}, 'kind': 'nick', 'a': schemes[i]}, None, None, exc=e)
        # a second object for the same scheme whose FIRST query is the complete-rankings-only one (the answers must
        # not depend on which question an object was asked first)
        from ..lib import mk_scheme as _mk
        a2 = _mk(schemes[i])
        for j in range(len(schemes)):
            b = objs[j]
            ctx.evals += 4
            try:
                e6 = a.is_equivalent_to(b)
                e3 = a.is_equivalent_to_on_complete_rankings_only(b)
                f3 = a2.is_equivalent_to_on_complete_rankings_only(b)
                f6 = a2.is_equivalent_to(b)
            except Exception as e:
                ctx.violation('equivalence-raises', {'cfg': {}, 'kind': 'equiv', 'a': schemes[i], 'b': schemes[j]},
                              None, None, exc=e)
                continue
            x6 = n6[i] == n6[j]
            x3 = n3[i] == n3[j]
            if x6:
                ctx.nontrivial += 1
            if e6 is not x6:
                ctx.violation('is_equivalent_to', {'cfg': {}, 'kind': 'equiv', 'a': schemes[i], 'b': schemes[j]}, e6, x6)
            if e3 is not x3:
                ctx.violation('is_equivalent_on_complete', {'cfg': {}, 'kind': 'equiv', 'a': schemes[i],
                                                            'b': schemes[j]}, e3, x3)
            if f6 is not x6 or f3 is not x3:
                ctx.violation('equivalence-depends-on-query-order', {'cfg': {}, 'kind': 'equiv', 'a': schemes[i],
                                                                     'b': schemes[j], 'order': 'complete-only first'},
                              [f3, f6], [x3, x6])
            if x3 and not x6:
                ctx.count('pairs_equivalent_on_complete_only')
    ctx.outcome(('equiv', sh['shard']))
    ctx.sample({'kind': 'equiv', 'a': schemes[sh['shard']], 'b': schemes[-1 - sh['shard']]})


def run_scale(ctx, sh):
    ss = _lib['ss']
    schemes, objs = build_valid(ctx, spaces.schemes_over([0, 1, 2]))
    factors = [0.5, 1, 2, 3, 1.0, 2.0, 0.25, 3.0]
    for i in range(sh['shard'], len(schemes), sh['nshards']):
        s = schemes[i]
        a = objs[i]
        snap = copy.deepcopy(a.__dict__)
        for k in factors:
            for side in ('s*k', 'k*s'):
                case = {'cfg': {}, 'kind': 'scale', 'a': s, 'k': k, 'side': side}
                ctx.cases += 1
                ctx.nontrivial += 1
                ctx.evals += 1
                try:
                    r = a * k if side == 's*k' else k * a
                except Exception as e:
                    ctx.violation('scale-raises', case, None, None, exc=e)
                    continue
                if not isinstance(r, ss.ScoringScheme) or r is a:
                    ctx.violation('scale-not-a-new-scheme', case, repr(r), None)
                    continue
                want = [[x * k for x in s[0]], [x * k for x in s[1]]]
                if r.penalty_vectors != want:
                    ctx.violation('scale-values', case, r.penalty_vectors, want)
                if r.penalty_vectors is a.penalty_vectors or r.penalty_vectors[0] is a.penalty_vectors[0]:
                    ctx.violation('scale-shares-storage', case, None, None)
                if a.__dict__ != snap:
                    ctx.violation('scale-mutates-original', case, a.__dict__, snap)
                    snap = copy.deepcopy(a.__dict__)
                # the scaled scheme is valid and equivalent to the original
                try:
                    ss.ScoringScheme(copy.deepcopy(r.penalty_vectors))
                except Exception as e:
                    ctx.violation('scaled-scheme-invalid', case, r.penalty_vectors, None, exc=e)
                ctx.outcome(('scale', tuple(want[0]), tuple(want[1])))
    ctx.sample({'kind': 'scale', 'a': schemes[sh['shard']], 'factors': factors})


def run_homog(ctx, sh):
    from ..lib import mk_dataset, mk_scheme, mk_ranking, labels_for
    labels = labels_for('ints', sh['n'])
    lab = dict(enumerate(labels))
    K = _lib['K']
    for index, ds in spaces.ds_iter_strided(sh['n'], sh['m'], sh['shard'], sh['nshards']):
        dataset = mk_dataset(ds, labels)
        universe = spaces.universe_of(ds)
        cands = [(c, mk_ranking(c, lab)) for c in spaces.weak_orders(universe)]
        for name, s in spaces.SCHQ:
            try:
                a = mk_scheme(s)
            except Exception as e:
                ctx.violation('valid-scheme-rejected', {'cfg': {}, 'kind': 'validate', 'B': list(s[0]), 'T': list(s[1]),
                                                        'float': True}, type(e).__name__, 'accepted')
                continue
            fa = K(a)
            base = [float(fa.get_kemeny_score(cr, dataset)) for _, cr in cands]
            ctx.evals += len(cands)
            for k in sh['factors']:
                ctx.cases += 1
                try:
                    fb = K(a * k)
                except Exception as e:
                    ctx.violation('scale-raises', {'cfg': {}, 'kind': 'scale', 'a': s, 'k': k, 'side': 's*k'}, None, None, exc=e)
                    continue
                for (c, cr), b0 in zip(cands, base):
                    ctx.evals += 1
                    got = float(fb.get_kemeny_score(cr, dataset))
                    if abs(got - k * b0) > 1e-9:
                        ctx.violation('score-not-homogeneous', {'cfg': {}, 'kind': 'homog', 'dataset': ds, 'n': sh['n'],
                                                                'scheme': s, 'k': k, 'candidate': c}, got, k * b0)
                        break
                    if b0 > 0:
                        ctx.nontrivial += 1
    ctx.outcome(('homog', sh['shard']))


def run_shard(sh):
    ctx = Ctx(ID)
    kind = sh['kind']
    if kind == 'validate':
        vals = sh['grid']
        conv = float if sh['float'] else (lambda x: x)
        a, b = sh['prefix']
        for rest in product(vals, repeat=10):
            t = (a, b) + rest
            t = tuple(conv(x) for x in t)
            check_validate_one(ctx, t[:6], t[6:])
        ctx.count('validated_tuples', len(vals) ** 10)
        ctx.sample({'kind': 'validate', 'grid': vals, 'prefix': sh['prefix'], 'float': sh['float']})
    elif kind == 'malformed':
        run_malformed(ctx)
    elif kind == 'equiv':
        run_equiv(ctx, sh)
    elif kind == 'scale':
        run_scale(ctx, sh)
    elif kind == 'homog':
        run_homog(ctx, sh)
    return ctx.result()


def replay(ctx, c):
    from ..lib import mk_scheme
    kind = c['kind']
    if kind == 'validate':
        conv = float if c['float'] else int
        check_validate_one(ctx, tuple(conv(x) for x in c['B']), tuple(conv(x) for x in c['T']))
    elif kind == 'malformed':
        run_malformed(ctx)
    elif kind in ('equiv', 'nick'):
        sa = (tuple(c['a'][0]), tuple(c['a'][1]))
        a = mk_scheme(sa)
        if kind == 'nick':
            want = refmodel.nickname(sa) or str(a)
            if a.get_nickname() != want:
                ctx.violation('nickname', c, a.get_nickname(), want)
            return
        sb = (tuple(c['b'][0]), tuple(c['b'][1]))
        b = mk_scheme(sb)
        x6 = norm(sa, 6) == norm(sb, 6)
        x3 = norm(sa, 3) == norm(sb, 3)
        if a.is_equivalent_to(b) is not x6:
            ctx.violation('is_equivalent_to', c, a.is_equivalent_to(b), x6)
        if a.is_equivalent_to_on_complete_rankings_only(b) is not x3:
            ctx.violation('is_equivalent_on_complete', c, a.is_equivalent_to_on_complete_rankings_only(b), x3)
    elif kind == 'scale':
        run_scale(ctx, {'shard': 0, 'nshards': 1})
    elif kind == 'homog':
        run_homog(ctx, {'n': c['n'], 'm': len(c['dataset']), 'shard': 0, 'nshards': 1, 'factors': (c['k'],)})


def summarize(tier, seed, merged, phases):
    cov = {
        'rule': 'validation: ALL 12-tuples over {0,1,2} and {-1,0,1} (thorough + {0,.5,1,2}) as ints and as floats '
                'plus a menu of malformed shapes/types, oracle = validity predicate + documented exception precedence '
                '(format, value, association); scaling: all 2916 valid schemes over {0,1,2} x 8 factors x both operand '
                'orders; score homogeneity: DS(n,m) x WO(U) x 16 schemes x factors; equivalence: ALL ordered pairs of '
                'the 2916 schemes, oracle = equality of penalty vectors normalised by B[1] (exact Fractions), nickname '
                '= first preset in documented order. non-trivial = valid tuples, equivalent pairs, non-zero scores',
    }
    c = merged['counters']
    guards = [('validated tuples', c.get('validated_tuples', 0)), ('nicknamed schemes', c.get('nicknamed_schemes', 0)),
              ('pairs equivalent on complete only', c.get('pairs_equivalent_on_complete_only', 0))]
    return cov, ['bool / nan / inf penalties are not judged (reported as info counters)'], guards

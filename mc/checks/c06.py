"""C06 — ParCons: partition admits an optimal consensus; optimality flag is truthful."""
from .. import spaces, refmodel, harness, algos, cross
from ..harness import Ctx, watchdog
from ..lib import wellformed

ID = 'C06'
_lib = {}
BOUNDS = {'ParCons(b=3,Copeland)': 3, 'ParCons(b=3,Borda)': 3, 'ParCons': 80, 'ParCons(b=0)': 0, 'ParCons(b=1,KwikSort)': 1, 'ParCons(b=2,Copeland)': 2,
          'ParCons(b=0,KwikSort)': 0, 'ParCons(b=0,Copeland)': 0, 'ParCons(b=2)': 2, 'ParCons(b=3,KwikSort)': 3}


def plan(tier, seed):
    alt = spaces.label_choices(seed, 1)[0]
    if tier == 'quick':
        by_mode = {
            'absent': [dict(n=3, m=2, labels='ints', schemes='three_t', configs='parcons_fast'),
                       dict(n=3, m=3, labels='ints', schemes='three_t', configs='parcons_fast', per=60, partition=True),
                       dict(space='ext43', labels='ints', schemes='ext', configs='parcons_fast', per=300, partition=True),
                       dict(n=3, m=2, labels='ints', schemes='three', configs='others_fast', flags='one'),
                       dict(n=3, m=2, labels='ints', schemes='one', configs='parcons_cbc', per=6),
                       dict(n=4, m=2, labels='ints', schemes='two_t', configs='none', per=100, partition=True)],
            'absent_enum': [dict(n=3, m=2, labels='ints', schemes='three', configs='solver'),
                            dict(n=3, m=3, labels='ints', schemes='ext1', configs='parcons_solver', per=60),
                            dict(n=3, m=2, labels=alt, schemes='two', configs='solver'),
                            dict(space='ext43', labels='ints', schemes='ext', configs='parcons_solver', per=300),
                            dict(n=3, m=2, labels='ints', schemes='one', configs='parcons_solver', premutate=True, reuse=False,
                                 flags='one'),
                            dict(space='family7', labels='ints', schemes='ext', configs='parcons_b3', flags='one'),
                            dict(space='family7', labels='ints_rev', schemes='ext1', configs='parcons_b3', flags='one')],
            'stub': [dict(n=3, m=2, labels='ints', schemes='three', configs='solver'),
                     dict(n=3, m=3, labels='ints', schemes='one_b', configs='parcons_solver', per=60),
                     dict(space='ext43', labels='ints_rev', schemes='ext', configs='parcons_solver', per=300)],
        }
    else:
        by_mode = {
            'absent': [dict(n=4, m=2, labels='ints', schemes='all', configs='parcons_fast', per=60, partition=True),
                       dict(n=3, m=3, labels='ints', schemes='all', configs='parcons_fast', per=60, partition=True),
                       dict(n=4, m=3, labels='ints', schemes='three', configs='none', per=4000, maxk=512, partition=True,
                            sparse_third=True),
                       dict(n=5, m=2, labels='ints', schemes='two', configs='none', per=2000, maxk=256, partition=True),
                       dict(n=4, m=2, labels='ints', schemes='three', configs='others_fast', flags='one', per=60),
                       dict(n=3, m=2, labels='ints', schemes='three', configs='parcons_cbc', per=6),
                       dict(n=3, m=3, labels='ints', schemes='one', configs='parcons_cbc', per=30, maxk=256)],
            'absent_enum': [dict(n=4, m=2, labels='ints', schemes='six', configs='solver', per=60),
                            dict(n=3, m=3, labels='ints', schemes='six', configs='parcons_solver', per=60),
                            dict(n=4, m=3, labels='ints', schemes='three', configs='parcons_solver', per=4000, maxk=512,
                                 sparse_third=True),
                            dict(n=4, m=2, labels=alt, schemes='two', configs='solver', per=60)],
            'stub': [dict(n=4, m=2, labels='ints', schemes='six', configs='solver', per=60),
                     dict(n=3, m=3, labels='ints', schemes='six', configs='parcons_solver', per=60),
                     dict(n=4, m=3, labels='ints', schemes='three', configs='parcons_solver', per=4000, maxk=512,
                          sparse_third=True),
                     dict(n=5, m=2, labels='ints', schemes='one', configs='parcons_solver', per=2000, maxk=256, flags='one')],
        }
    return cross.std_phases(by_mode)


def init_worker(cfg):
    mode = cfg['mode']
    algos.init_mode(mode)
    _lib['mode'] = mode
    allc = cross.select_configs(mode, lambda c: True)
    par = [c for c in allc if 'parcons' in c.tags]
    _lib['none'] = []
    _lib['parcons_fast'] = [c for c in par if 'fast' in c.tags]
    _lib['parcons_cbc'] = [c for c in par if 'cbc' in c.tags]
    _lib['parcons_solver'] = [c for c in par if 'enum' in c.tags or 'cbc' in c.tags]
    _lib['parcons_b3'] = [c for c in par if 'b3' in c.tags or c.name in ('ParCons', 'ParCons(b=2)', 'ParCons(b=0)')]
    _lib['solver'] = [c for c in allc if 'enum' in c.tags or 'cbc' in c.tags]
    _lib['others_fast'] = [c for c in allc if 'fast' in c.tags and 'parcons' not in c.tags]
    from corankco.partitioning.ordered_partition import OrderedPartition
    from corankco.consensus import ConsensusFeature
    _lib.update(OP=OrderedPartition, F=ConsensusFeature)


def abstract_groups(groups, back):
    return [tuple(sorted(back.elem(e) for e in g)) for g in groups]


def partition_problem(groups, universe):
    """None if `groups` (abstract) is a partition of the universe into non-empty groups."""
    seen = []
    for g in groups:
        if len(g) == 0:
            return 'empty group'
        seen.extend(g)
    if len(seen) != len(set(seen)):
        return 'groups overlap'
    if set(seen) != set(universe):
        return 'union %r != universe %r' % (sorted(set(seen)), sorted(universe))
    return None


def can_all_tie(group, table):
    return all(table[(x, y)][2] <= min(table[(x, y)][0], table[(x, y)][1]) for x in group for y in group if x < y)


def check_partition(ctx, ds, lname, n, s):
    """OrderedPartition.parcons_partition on one (dataset, scheme)."""
    from ..lib import mk_dataset, mk_scheme, labels_for, Back
    labels = labels_for(lname, n)
    universe = spaces.universe_of(ds)
    back = Back(labels, universe)
    case = {'cfg': {'mode': _lib['mode']}, 'kind': 'partition', 'dataset': ds, 'labels': lname, 'n': n, 'scheme': s}
    ctx.evals += 1
    try:
        with watchdog(30):
            op = _lib['OP'].parcons_partition(mk_dataset(ds, labels), mk_scheme(s))
            groups = abstract_groups(op.partition, back)
    except Exception as e:
        ctx.violation('parcons-partition-raises', case, None, None, exc=e)
        return None
    bad = partition_problem(groups, universe)
    if bad:
        ctx.violation('parcons-partition-is-not-a-partition', case, groups, bad)
        return None
    ref = cross.Ref(ds, universe, s)
    opt, mins = ref.optimum
    if not any(refmodel.respects_partition(mn, groups) for mn in mins):
        ctx.violation('no-optimal-consensus-respects-the-parcons-partition', case, groups, mins[:5])
    if len(groups) > 1:
        ctx.count('partitions_with_several_groups')
        ctx.nontrivial += 1
    if any(len(g) > 1 for g in groups) and len(groups) > 1:
        ctx.count('partitions_with_a_nontrivial_group_and_several_groups')
    ctx.outcome(('partition', tuple(groups)))
    return groups


def oracle(ctx, info):
    name = info.cfg.name
    is_parcons = 'parcons' in info.cfg.tags
    if info.status == 'refused' and ({'needs_borda', 'needs_pick'} & info.cfg.tags):
        ctx.count('documented_refusal_of_the_auxiliary_algorithm')
        return
    if info.status != 'ok':
        if is_parcons:
            ctx.violation('parcons-raises' if info.status == 'exc' else 'parcons-' + info.status, info.case(), None, None,
                          exc=info.value if info.status == 'exc' else None)
        else:
            ctx.count('other_algorithm_without_consensus')
        return
    c = info.value
    for r in c.consensus_rankings:
        bad = wellformed(r, info.back, info.universe)
        if bad:
            if is_parcons:
                ctx.violation('malformed-consensus', info.case(), bad, None)
            return
    got = info.rankings()
    opt, mins = info.ref.optimum
    tol = 1e-9
    try:
        flag = c.necessarily_optimal
    except Exception as e:
        ctx.violation('optimality-flag-unreadable', info.case(), None, None, exc=e)
        return
    # "whenever ANY algorithm marks a consensus as necessarily optimal it is a global minimiser"
    if flag:
        ctx.count('results_flagged_optimal')
        for r in got:
            if info.ref.score(r) > opt + tol:
                ctx.violation('flagged-necessarily-optimal-but-not-optimal', info.case(result=r), info.ref.score(r),
                              [opt, mins[:3]])
                return
    if not is_parcons:
        return
    if flag is not True and flag is not False:
        ctx.violation('optimality-flag-not-a-bool', info.case(), repr(flag), None)
        return
    # the partition, by the library's own static method, on fresh objects
    from ..lib import mk_dataset, mk_scheme
    try:
        op = _lib['OP'].parcons_partition(mk_dataset(info.ds, info.labels), mk_scheme(info.s))
        groups = abstract_groups(op.partition, info.back)
    except Exception as e:
        ctx.violation('parcons-partition-raises', info.case(), None, None, exc=e)
        return
    if partition_problem(groups, info.universe):
        ctx.violation('parcons-partition-is-not-a-partition', info.case(), groups, partition_problem(groups, info.universe))
        return
    if not refmodel.respects_partition(got[0], groups):
        ctx.violation('parcons-consensus-does-not-respect-its-partition', info.case(result=got[0]), got[0], groups)
    try:
        weak = abstract_groups(c.features[_lib['F'].WEAK_PARTITIONING], info.back)
    except Exception as e:
        ctx.violation('weak-partitioning-feature-unreadable', info.case(), None, groups, exc=e)
        return
    if weak != groups:
        ctx.violation('weak-partitioning-feature-differs-from-partition', info.case(), weak, groups)
    bound = BOUNDS[name]
    delegated = [g for g in groups if not can_all_tie(g, info.ref.table) and len(g) > bound]
    want = len(delegated) == 0
    if flag is not want:
        ctx.violation('optimality-flag-wrong', info.case(result=got[0], groups=groups, delegated=delegated), flag, want)
    if delegated:
        ctx.count('runs_with_a_delegated_component')
        if any(not can_all_tie(g, info.ref.table) and 1 < len(g) <= bound for g in groups):
            ctx.count('runs_with_a_delegated_AND_an_exactly_solved_component')
    if any(len(r) == 0 or not any(set(b) & set(g) for b in r) for r in info.ds for g in groups):
        ctx.count('runs_where_a_ranking_misses_a_whole_component')
    if len(groups) > 1 and any(len(g) > 1 for g in groups):
        ctx.nontrivial += 1
    ctx.outcome((name, tuple(got), flag))
    if ctx.evals % 5000 == 1:
        ctx.sample(info.case(result=got, groups=groups, flag=flag))


def run_shard(sh):
    ctx = Ctx(ID)
    flt = None
    if sh.get('sparse_third'):
        # DS(4,3) restricted to a third ranking that is empty or a single element: all enumerated
        flt = lambda ds: sum(len(b) for b in ds[2]) <= 1
    flags = (True,) if sh.get('flags') == 'one' else (True, False)
    schemes = cross.SCHEME_KINDS[sh['schemes']]

    def per_dataset(c, ds):
        if sh.get('partition'):
            for s in schemes:
                check_partition(c, ds, sh['labels'], sh['n'], s)
    cross.run_block(ctx, sh, _lib['mode'], _lib[sh['configs']], oracle, flags=flags, ds_filter=flt, per_dataset=per_dataset)
    return ctx.result()


def replay(ctx, c):
    from ..lib import tt, scheme_of
    if c.get('kind') == 'partition':
        check_partition(ctx, tt(c['dataset']), c['labels'], c['n'], scheme_of(c['scheme']))
    else:
        cross.replay_case(ctx, c, oracle)


def summarize(tier, seed, merged, phases):
    c = merged['counters']
    cov = {'rule': 'every dataset of the blocks (all of DS: sparse datasets where a ranking misses a whole component '
                   'included; thorough adds the whole sub-space of DS(4,3) whose third ranking is empty or one element) '
                   'x schemes x ParCons(bound in {80,0,1,2,3}) x auxiliary in {BioConsert, KwikSort (all pivots), Copeland} '
                   'x three process modes x both flags x all schedules; and every other configuration for the "whenever '
                   'any algorithm marks..." clause. Oracle: parcons_partition is a partition of U and SOME brute-force '
                   'minimiser orders all earlier groups strictly before later ones; the ParCons consensus respects it; '
                   'features[WEAK_PARTITIONING] equals it group by group; necessarily_optimal => ref_score == optimum; '
                   'flag == (no group with size > bound that cannot be all-tied at minimal cost). non-trivial = >1 '
                   'group with a non-singleton group'}
    guards = [('partitions with several groups', c.get('partitions_with_several_groups', 0)),
              ('delegated component', c.get('runs_with_a_delegated_component', 0)),
              ('ranking misses a component', c.get('runs_where_a_ranking_misses_a_whole_component', 0)),
              ('flagged optimal', c.get('results_flagged_optimal', 0)),
              ('delegated and exactly solved components together', c.get('runs_with_a_delegated_AND_an_exactly_solved_component', 0))]
    return cov, ['stand-ins as in C05'], guards

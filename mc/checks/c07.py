"""C07 — ParFront partition is respected by every optimal consensus; the consistency test is exact."""
from .. import spaces, refmodel, harness, cross
from ..harness import Ctx, watchdog, CaseTimeout
from ..lib import ds_shards, tt, scheme_of

ID = 'C07'
_lib = {}


def plan(tier, seed):
    alt = spaces.label_choices(seed, 1)[0]
    if tier == 'quick':
        blocks = [dict(n=3, m=2, labels='ints', schemes='all', histories=True), dict(n=3, m=3, labels='ints', schemes='six_t7', per=60),
                  dict(n=4, m=2, labels='ints', schemes='one', per=100, histories=True),
                  dict(n=3, m=3, labels='ints', schemes='one', per=200, histories='empties'),
                  dict(n=4, m=3, labels='ints', schemes='one', per=20000, maxk=256, histories='empties'),
                  dict(n=4, m=2, labels='ints', schemes='two_t', per=100), dict(n=3, m=2, labels=alt, schemes='four')]
        cons_n = [1, 2, 3, 4]
    else:
        blocks = [dict(n=4, m=2, labels='ints', schemes='all', per=100), dict(n=3, m=3, labels='ints', schemes='all', per=60),
                  dict(n=4, m=3, labels='ints', schemes='two', per=4000, maxk=512),
                  dict(n=5, m=2, labels='ints', schemes='two', per=2000, maxk=256),
                  dict(n=4, m=2, labels=alt, schemes='four', per=100)]
        cons_n = [1, 2, 3, 4, 5]
    shards = []
    for b in blocks:
        shards.extend(ds_shards([b], per=b.get('per', 20), maxk=b.get('maxk', 64), kind='partition'))
    for n in cons_n:
        k = 1 if n < 4 else (16 if n == 4 else 64)
        for s in range(k):
            shards.append({'kind': 'consistent', 'n': n, 'shard': s, 'nshards': k})
    return [{'name': 'parfront', 'cfg': {}, 'shards': shards}]


def init_worker(cfg):
    harness.import_library(False)
    from corankco.partitioning.ordered_partition import OrderedPartition
    from corankco.consensus import Consensus
    _lib.update(OP=OrderedPartition, Consensus=Consensus)


def abstract_groups(groups, back):
    return [tuple(sorted(back.elem(e) for e in g)) for g in groups]


def robust_cascade_needed(groups, table):
    """reference: does merging at a later index force a re-examination of the first group?  (non-vacuity only)"""
    def robust(x, y):
        b, a, t = table[(x, y)]
        return b < a and b < t
    part = [set(g) for g in groups]
    i, merged_later, cascade = 0, False, False
    while i < len(part) - 1:
        if all(robust(x, y) for x in part[i] for y in part[i + 1]):
            i += 1
        else:
            part[i] |= part.pop(i + 1)
            if i >= 1:
                merged_later = True
            if i == 1 and not all(robust(x, y) for x in part[0] for y in part[1]):
                cascade = True
            i = max(i - 1, 0)
    return cascade, [tuple(sorted(p)) for p in part]


def check_partition(ctx, ds, lname, n, s, dataset_obj=None, origin=None):
    from ..lib import mk_dataset, mk_scheme, labels_for, Back
    labels = labels_for(lname, n)
    universe = spaces.universe_of(ds)
    back = Back(labels, universe)
    case = {'cfg': {}, 'kind': 'partition', 'dataset': ds, 'labels': lname, 'n': n, 'scheme': s,
            'mutated_in_place_from': origin}
    harness.mark(case)
    ctx.evals += 2
    try:
        with watchdog(30):
            pf = _lib['OP'].parfront_partition(dataset_obj if dataset_obj is not None else mk_dataset(ds, labels), mk_scheme(s))
            pc = _lib['OP'].parcons_partition(dataset_obj if dataset_obj is not None else mk_dataset(ds, labels), mk_scheme(s))
            front = abstract_groups(pf.partition, back)
            weak = abstract_groups(pc.partition, back)
    except CaseTimeout:
        ctx.violation('no-termination', case, 'timeout', None)
        return
    except Exception as e:
        ctx.violation('parfront-raises', case, None, None, exc=e)
        return
    from .c06 import partition_problem
    bad = partition_problem(front, universe)
    if bad:
        ctx.violation('parfront-is-not-a-partition', case, front, bad)
        return
    if partition_problem(weak, universe):
        ctx.count('parcons_partition_malformed_skipped')
        return
    # merges consecutive ParCons groups without reordering
    flat, ok, wi = [], True, 0
    for g in front:
        acc = set()
        while wi < len(weak) and acc != set(g) and set(weak[wi]) <= set(g):
            acc |= set(weak[wi])
            wi += 1
        if acc != set(g):
            ok = False
            break
    if not ok or wi != len(weak):
        ctx.violation('parfront-is-not-a-merge-of-consecutive-parcons-groups', case, front, weak)
        return
    ref = cross.Ref(ds, universe, s)
    opt, mins = ref.optimum
    for mn in mins:
        if not refmodel.respects_partition(mn, front):
            ctx.violation('an-optimal-consensus-violates-the-parfront-partition', dict(case, minimiser=mn), front,
                          [mn, opt])
            break
    if len(front) > 1:
        ctx.count('parfront_with_several_groups')
        ctx.nontrivial += 1
    if front != weak:
        ctx.count('parfront_differs_from_parcons')
    cascade, _ = robust_cascade_needed(weak, ref.table)
    if cascade:
        ctx.count('cases_where_a_later_merge_cascades_back_to_the_first_group')
    if len(mins) > 1:
        ctx.count('cases_with_several_minimisers')
    ctx.outcome((tuple(front), tuple(weak)))


HIST_SCHEMES = [spaces.UNIFYING, spaces.B5LTT5, spaces.EXTENDED]


def histories(ctx, ds0, lname, n, only_empties=False):
    """partition -> mutate the dataset object in place -> partition again on the SAME object."""
    from ..lib import labels_for, mutation_histories, prepare_mutated, mk_scheme
    labels = labels_for(lname, n)
    for what, after in mutation_histories(ds0):
        if only_empties and what != 'empties':
            continue
        for s in HIST_SCHEMES:
            def warm(dd):
                _lib['OP'].parfront_partition(dd, mk_scheme(s))
                _lib['OP'].parcons_partition(dd, mk_scheme(s))
            d = prepare_mutated(ds0, labels, what, warm=warm)
            check_partition(ctx, after, lname, n, s, dataset_obj=d, origin=[ds0, what])
            ctx.count('partitions_after_partition_mutate_on_the_same_object')


def run_partition(ctx, sh):
    for index, ds in spaces.ds_iter_strided(sh['n'], sh['m'], sh['shard'], sh['nshards']):
        ctx.cases += 1
        if sh.get('histories') == 'empties':
            # this block only contributes histories: datasets with an empty ranking, which is then removed in place
            if any(len(r) == 0 for r in ds):
                histories(ctx, ds, sh['labels'], sh['n'], only_empties=True)
            continue
        for s in cross.SCHEME_KINDS[sh['schemes']]:
            check_partition(ctx, ds, sh['labels'], sh['n'], s)
        if sh.get('histories'):
            histories(ctx, ds, sh['labels'], sh['n'], only_empties=(sh['histories'] == 'empties'))
    ctx.sample({'kind': 'partition', 'block': [sh['n'], sh['m']], 'labels': sh['labels'], 'schemes': sh['schemes']})


def expected_consistent(P, c):
    pel = set(x for g in P for x in g)
    cel = set(x for b in c for x in b)
    return pel == cel and refmodel.respects_partition(c, P)


def check_consistent(ctx, P, c, with_dataset, labels):
    from ..lib import mk_ranking, mk_dataset
    OP, Consensus = _lib['OP'], _lib['Consensus']
    from corankco.element import Element
    case = {'cfg': {}, 'kind': 'consistent', 'partition': P, 'consensus': c, 'with_dataset': with_dataset}
    want = expected_consistent(P, c)
    ctx.cases += 1
    ctx.evals += 1
    harness.mark(case)
    try:
        op = OP([set(Element(labels[x]) for x in g) for g in P])
        r = mk_ranking(c, labels)
        if with_dataset:
            cons = Consensus([r], dataset=mk_dataset((c,), labels))
        else:
            cons = Consensus([r])
        with watchdog(20):
            got = op.consistent_with(cons)
    except CaseTimeout:
        ctx.violation('consistency-test-does-not-terminate', case, 'timeout', want)
        return
    except Exception as e:
        ctx.violation('consistency-test-raises', case, None, want, exc=e)
        return
    if got is not want and got != want:
        ctx.violation('consistency-test-wrong', case, got, want)
    if want:
        ctx.nontrivial += 1
    ctx.outcome((got, want))


def run_consistent(ctx, sh):
    n = sh['n']
    labels = dict(enumerate(['a', 'b', 'c', 'd', 'e', 'f'][:n + 1]))
    U = tuple(range(n))
    parts = spaces.weak_orders(U)
    cands = list(spaces.weak_orders(U))
    # consensuses over a strict subset, a superset, and an equal-size different set
    if n >= 2:
        for sub in spaces.subsets(U, 1):
            if len(sub) < n:
                cands.extend(spaces.weak_orders(sub))
        other = U[:-1] + (n,)
        cands.extend(spaces.weak_orders(other))
    if n <= 3:
        cands.extend(spaces.weak_orders(U + (n,)))
    count = 0
    for pi in range(sh['shard'], len(parts), sh['nshards']):
        P = parts[pi]
        for c in cands:
            if len(c) == 0:
                continue
            check_consistent(ctx, P, c, False, labels)
            if set(x for b in c for x in b) == set(U):
                check_consistent(ctx, P, c, True, labels)
            count += 1
    ctx.count('partition_consensus_pairs', count)
    ctx.sample({'kind': 'consistent', 'n': n, 'partitions': len(parts), 'consensuses': len(cands)})


def run_shard(sh):
    ctx = Ctx(ID)
    if sh['kind'] == 'partition':
        run_partition(ctx, sh)
    else:
        run_consistent(ctx, sh)
    return ctx.result()


def replay(ctx, c):
    if c['kind'] == 'partition' and c.get('mutated_in_place_from'):
        global HIST_SCHEMES
        saved, HIST_SCHEMES = HIST_SCHEMES, [scheme_of(c['scheme'])]
        try:
            histories(ctx, tt(c['mutated_in_place_from'][0]), c['labels'], c['n'])
        finally:
            HIST_SCHEMES = saved
    elif c['kind'] == 'partition':
        check_partition(ctx, tt(c['dataset']), c['labels'], c['n'], scheme_of(c['scheme']))
    else:
        P, cc = tt(c['partition']), tt(c['consensus'])
        n = max([x for g in P for x in g] + [x for b in cc for x in b]) + 1
        check_consistent(ctx, P, cc, c['with_dataset'], dict(enumerate(['a', 'b', 'c', 'd', 'e', 'f', 'g'][:n + 1])))


def summarize(tier, seed, merged, phases):
    c = merged['counters']
    cov = {'rule': 'partition: every dataset of the blocks x schemes: ParFront is a partition of U, merges consecutive '
                   'ParCons groups without reordering, and EVERY brute-force minimiser places earlier groups strictly '
                   'before later ones (an over-merged partition is accepted, as the statement allows). consistency test: '
                   'ALL pairs (ordered partition P in WO(U), consensus c in WO(U) + consensuses over every strict subset, '
                   'a superset and an equal-size different set), n <= 4 (thorough 5), Consensus with and without an '
                   'associated dataset; oracle: same element set and every earlier-group element strictly before every '
                   'later-group element; watchdog for non-termination. non-trivial = partitions with >1 group / '
                   'consistent pairs'}
    guards = [('several groups', c.get('parfront_with_several_groups', 0)),
              ('parfront differs from parcons', c.get('parfront_differs_from_parcons', 0)),
              ('cascade cases', c.get('cases_where_a_later_merge_cascades_back_to_the_first_group', 0)),
              ('pairs', c.get('partition_consensus_pairs', 0))]
    return cov, ['malformed partitions (empty group) and consensuses that do not cover their associated dataset are outside '
                 'the property and are not fed to the consistency test'], guards

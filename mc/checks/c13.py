"""C13 — Copeland ranks by pairwise victories and reports consistent features."""
from fractions import Fraction
from .. import spaces, refmodel, harness
from ..harness import Ctx, watchdog
from ..lib import ds_shards, ds_expected, tt, scheme_of, EarlierResults

ID = 'C13'
_lib = {}


def plan(tier, seed):
    alt = spaces.label_choices(seed, 1)[0]
    if tier == 'quick':
        blocks = [dict(n=3, m=2, labels='ints', histories=True), dict(n=2, m=3, labels='ints'), dict(n=4, m=1, labels='ints'),
                  dict(n=3, m=2, labels=alt), dict(n=4, m=2, labels='ints', schemes='core')]
    else:
        blocks = [dict(n=4, m=2, labels='ints'), dict(n=3, m=3, labels='ints'), dict(n=5, m=1, labels='ints'),
                  dict(n=4, m=2, labels=alt, schemes='core'), dict(n=2, m=4, labels='ints'),
                  dict(n=5, m=2, labels='ints', schemes='core')]
    return [{'name': 'copeland', 'cfg': {}, 'shards': ds_shards(blocks), 'expected_cases': ds_expected(blocks)}]


def init_worker(cfg):
    harness.import_library(False)
    from corankco.algorithms.copeland.copeland import CopelandMethod
    _lib['A'] = CopelandMethod


CORE = [spaces.UNIFYING, spaces.ZERO_HEAVY, spaces.B3LTB4, spaces.PSEUDO_05]


def check_case(ctx, ds, lname, n, schemes, dataset_obj=None, alg_obj=None, origin=None, scheme_objs=None):
    from ..lib import mk_dataset, mk_scheme, labels_for, Back, wellformed
    labels = labels_for(lname, n)
    universe = spaces.universe_of(ds)
    k = len(universe)
    dataset = dataset_obj if dataset_obj is not None else mk_dataset(ds, labels)
    back = Back(labels, universe)
    for s in schemes:
        table = refmodel.ref_table(universe, ds, s[0], s[1])
        ved, score, ranking = refmodel.ref_copeland(universe, table)
        scheme = scheme_objs[s] if scheme_objs and s in scheme_objs else mk_scheme(s)
        for one, reused in ((True, False), (False, False), (True, True)):
            case = {'cfg': {}, 'dataset': ds, 'labels': lname, 'n': n, 'scheme': s, 'one': one, 'reused_object': reused,
                    'mutated_in_place_from': origin}
            ctx.evals += 1
            if alg_obj is not None:
                alg = alg_obj
            elif reused:
                case['reused_after'] = list(_lib.setdefault('hist', [])[-2:])
                _lib['hist'].append({'dataset': ds, 'scheme': s})
                del _lib['hist'][:-2]
                # a long-lived algorithm object that has already served every previous case of this shard
                alg = _lib.setdefault('inst', _lib['A']())
                ctx.count('executions_on_a_reused_algorithm_object')
            else:
                alg = _lib['A']()
            try:
                with watchdog(30):
                    c = alg.compute_consensus_rankings(dataset, scheme, one)
            except Exception as e:
                ctx.violation('copeland-raises', case, None, ranking, exc=e)
                continue
            try:
                _ = c.kemeny_score   # the lazy score is written once; snapshots are taken after it
            except Exception:
                pass                 # a consensus that cannot be scored is reported by the structural checks below
            _lib.setdefault('earlier', EarlierResults()).check_and_remember(ctx, ('copeland', reused), c, case)
            if len(c.consensus_rankings) != 1:
                ctx.violation('copeland-number-of-rankings', case, len(c.consensus_rankings), 1)
                continue
            r = c.consensus_rankings[0]
            bad = wellformed(r, back, universe)
            if bad:
                ctx.violation('copeland-malformed', case, bad, ranking)
                continue
            got = back.ranking(r)
            if got != ranking:
                ctx.violation('copeland-ranking', case, got, ranking,
                              message='reference scores %r' % {x: str(v) for x, v in score.items()})
            try:
                sc = c.copeland_scores
                vi = c.copeland_victories
                got_sc = {back.elem(e): float(v) for e, v in sc.items()}
                got_vi = {back.elem(e): [float(x) for x in v] for e, v in vi.items()}
                keys_ok = all(back.type_ok(e) for e in sc) and all(back.type_ok(e) for e in vi)
            except Exception as e:
                ctx.violation('copeland-features-unreadable', case, None, None, exc=e)
                continue
            if set(got_sc) != set(universe) or set(got_vi) != set(universe) or len(sc) != k or len(vi) != k or not keys_ok:
                ctx.violation('copeland-feature-keys', case, [sorted(got_sc), sorted(got_vi)], sorted(universe))
                continue
            if any(Fraction(got_sc[x]) != score[x] for x in universe):
                ctx.violation('copeland-scores', case, got_sc, {x: float(v) for x, v in score.items()})
            ved_order = all(got_vi[x] == [ved[x][0], ved[x][1], ved[x][2]] for x in universe)
            vde_order = all(got_vi[x] == [ved[x][0], ved[x][2], ved[x][1]] for x in universe)
            if not (ved_order or vde_order):
                ctx.violation('copeland-victories', case, got_vi, ved)
            if any(len(v) != 3 or sum(v) != k - 1 for v in got_vi.values()):
                ctx.violation('copeland-counts-do-not-sum', case, got_vi, k - 1)
            if abs(sum(got_sc.values()) - k * (k - 1) / 2) > 1e-9:
                ctx.violation('copeland-scores-do-not-sum', case, got_sc, k * (k - 1) / 2)
        ctx.cases += 1
        if len(ranking) > 1 and any(len(b) > 1 for b in ranking):
            ctx.nontrivial += 1
        if any(v[1] for v in ved.values()):
            ctx.count('cases_with_equalities')
        ctx.outcome((ranking, tuple(sorted((x, tuple(v)) for x, v in ved.items()))))
    ctx.sample({'dataset': ds, 'labels': lname, 'reference_ranking': ranking})


def histories(ctx, ds0, lname, n, schemes):
    """run -> mutate in place -> run again on the SAME dataset object and the SAME algorithm object."""
    from ..lib import labels_for, mutation_histories, prepare_mutated, mk_scheme
    labels = labels_for(lname, n)
    for what, after in mutation_histories(ds0):
        for s in schemes:
            alg = _lib['A']()
            so = mk_scheme(s)     # ONE scheme object for the run before and the run after the mutation
            d = prepare_mutated(ds0, labels, what, warm=lambda dd: alg.compute_consensus_rankings(dd, so, True))
            check_case(ctx, after, lname, n, [s], dataset_obj=d, alg_obj=alg, origin=[ds0, what], scheme_objs={s: so})
            ctx.count('executions_after_run_mutate_on_the_same_objects')


def run_shard(sh):
    ctx = Ctx(ID)
    schemes = CORE if sh.get('schemes') == 'core' else [s for _, s in spaces.SCHQ]
    for index, ds in spaces.ds_iter_strided(sh['n'], sh['m'], sh['shard'], sh['nshards']):
        before = ctx.cases
        check_case(ctx, ds, sh['labels'], sh['n'], schemes)
        if sh.get('histories'):
            histories(ctx, ds, sh['labels'], sh['n'], [spaces.UNIFYING, spaces.B3LTB4])
        ctx.count('dataset_scheme_cases', ctx.cases - before)
        ctx.cases = before + 1
    return ctx.result()


def replay(ctx, c):
    if c.get('reused_after'):
        # a long-lived object had served these inputs before: new persistent objects, same history, then the case
        for k in [k for k in _lib if k == 'inst' or (isinstance(k, tuple) and k and k[0] in ('inst', 'seq'))] + ['hist', 'earlier']:
            _lib.pop(k, None)
        scratch = Ctx(ID)
        for prev in c['reused_after']:
            check_case(scratch, tt(prev['dataset']), c['labels'], c['n'], [scheme_of(prev['scheme'])])
    if c.get('mutated_in_place_from'):
        histories(ctx, tt(c['mutated_in_place_from'][0]), c['labels'], c['n'], [scheme_of(c['scheme'])])
    else:
        check_case(ctx, tt(c['dataset']), c['labels'], c['n'], [scheme_of(c['scheme'])])


def summarize(tier, seed, merged, phases):
    cov = {'rule': 'every dataset of the DS blocks x 16 schemes (zero-heavy ones give many equal-cost pairs) x both '
                   'flags: consensus == ranking by decreasing reference Copeland score (victories/equalities/defeats '
                   'from ref_table, exact Fractions), feature dictionaries keyed by exactly the universe with those '
                   'numbers, counts sum to n-1, scores to n(n-1)/2. non-trivial = reference ranking with >1 bucket and '
                   'a tie'}
    guards = [('cases with equalities', merged['counters'].get('cases_with_equalities', 0)),
              ('distinct outcomes', len(merged['outcomes']) > 20)]
    return cov, ['victory-count triples accepted in the order [v,e,d] (as coded) or [v,d,e] (as documented), consistently'], guards

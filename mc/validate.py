#!/opt/veriftools/pyvenv/bin/python
"""python3-vt mc/validate.py : validates MANIFEST.json and every evidence file against the schemas."""
import json, sys, os, glob
import jsonschema
V = os.path.dirname(os.path.dirname(os.path.abspath(__file__)))
ok = True
man = json.load(open(os.path.join(V, 'MANIFEST.json')))
jsonschema.validate(man, json.load(open('/root/.vp/MANIFEST.schema.json')))
print('MANIFEST ok (%d checks)' % len(man['checks']))
sch = json.load(open('/root/.vp/EVIDENCE.schema.json'))
for c in man['checks']:
    p = c['evidence_file']
    if not os.path.exists(p):
        print('missing evidence', p); ok = False; continue
    try:
        jsonschema.validate(json.load(open(p)), sch)
        print('evidence ok', p)
    except Exception as e:
        print('INVALID', p, str(e)[:300]); ok = False
props = [json.loads(l)['id'] for l in open(os.path.join(V, 'properties.jsonl'))]
claimed = {c['property_id'] for c in man['checks']} | {c['property_id'] for c in man.get('not_applicable', [])}
if set(props) != claimed:
    print('properties not accounted for:', set(props) ^ claimed); ok = False
sys.exit(0 if ok else 1)

"""Environment stand-ins (DESIGN.md 2.5): a `cplex` module and a PuLP solver, both backed by ONE
generic exhaustive 0/1 enumerator with interval pruning on the linear rows.  The enumerator knows
nothing about rankings.  It yields the ENTIRE feasible set, hence the exact optimum, the full pool of
optimal points, and a choice point "which optimal point does solve() return" owned by the chooser.

The feasible set depends only on (number of variables, rows, senses, rhs), never on the objective,
so it is cached under a key built from exactly that content: a changed constraint is a new key."""
import sys
import types
import numpy as np
from .harness import HarnessError

TOL = 1e-9
STATS = {'enumerations': 0, 'solves': 0, 'populates': 0, 'cache_hits': 0}
LAST = {}          # last solved model, for model-level invariants (C05)
_FEAS_CACHE = {}


class StubSolverError(Exception):
    """what a real solver would report as an error (bad dimensions, unknown names, infeasible...)."""


def enumerate_feasible(nvars, rows, senses, rhs):
    """rows: list of (list of var indices, list of coefs).  Returns an int8 array (points x nvars)."""
    key = (nvars, tuple((tuple(i), tuple(c)) for i, c in rows), tuple(senses), tuple(rhs))
    hit = _FEAS_CACHE.get(key)
    if hit is not None:
        STATS['cache_hits'] += 1
        return hit
    STATS['enumerations'] += 1
    nrows = len(rows)
    fixed = [0.0] * nrows
    fmin = [0.0] * nrows
    fmax = [0.0] * nrows
    occ = [[] for _ in range(nvars)]
    for r, (idx, coef) in enumerate(rows):
        for i, c in zip(idx, coef):
            occ[i].append((r, c))
            if c < 0:
                fmin[r] += c
            else:
                fmax[r] += c
    sense = list(senses)
    rhsv = [float(x) for x in rhs]

    def row_ok(r):
        lo = fixed[r] + fmin[r]
        hi = fixed[r] + fmax[r]
        s = sense[r]
        if s == 'E':
            return lo <= rhsv[r] + TOL and hi >= rhsv[r] - TOL
        if s == 'L':
            return lo <= rhsv[r] + TOL
        if s == 'G':
            return hi >= rhsv[r] - TOL
        raise StubSolverError("unknown sense %r" % s)
    for r in range(nrows):
        if not row_ok(r):
            res = np.zeros((0, nvars), dtype=np.int8)
            _FEAS_CACHE[key] = res
            return res
    out = []
    assign = [0] * nvars
    # iterative DFS
    var = 0
    stack_val = [-1] * (nvars + 1)   # value currently tried at depth
    depth = 0

    def set_var(i, v):
        ok = True
        for r, c in occ[i]:
            if c < 0:
                fmin[r] -= c
            else:
                fmax[r] -= c
            fixed[r] += c * v
        for r, c in occ[i]:
            if not row_ok(r):
                ok = False
                break
        return ok

    def unset_var(i, v):
        for r, c in occ[i]:
            if c < 0:
                fmin[r] += c
            else:
                fmax[r] += c
            fixed[r] -= c * v

    if nvars == 0:
        out.append([])
    else:
        tried = [-1] * nvars
        d = 0
        while d >= 0:
            if tried[d] >= 0:
                unset_var(d, tried[d])
            tried[d] += 1
            if tried[d] > 1:
                tried[d] = -1
                d -= 1
                continue
            v = tried[d]
            assign[d] = v
            if set_var(d, v):
                if d == nvars - 1:
                    out.append(list(assign))
                else:
                    d += 1
            # else: stay at depth d, the loop head unsets and tries the next value
    res = np.array(out, dtype=np.int8).reshape(len(out), nvars)
    # every returned point is re-checked against the rows it was given
    if len(out):
        for r, (idx, coef) in enumerate(rows):
            vals = res[:, list(idx)].astype(float) @ np.array(coef, dtype=float) if len(idx) else np.zeros(len(out))
            if sense[r] == 'E':
                okr = np.all(np.abs(vals - rhsv[r]) <= 1e-6)
            elif sense[r] == 'L':
                okr = np.all(vals <= rhsv[r] + 1e-6)
            else:
                okr = np.all(vals >= rhsv[r] - 1e-6)
            if not okr:
                raise HarnessError("enumerator returned an infeasible point (row %d)" % r)
    if len(_FEAS_CACHE) > 4000:
        _FEAS_CACHE.clear()
    _FEAS_CACHE[key] = res
    return res


def optimal_points(feas, obj):
    if feas.shape[0] == 0:
        raise StubSolverError("infeasible model")
    vals = feas.astype(float) @ np.asarray(obj, dtype=float)
    best = float(vals.min())
    idx = np.nonzero(vals <= best + 1e-9)[0]
    return best, idx, vals


def pick(idx_list, kind):
    from . import chooser
    if chooser.ACTIVE is not None and len(idx_list) > 1:
        return idx_list[chooser.ACTIVE.choose(len(idx_list), kind)]
    return idx_list[0]


# ----------------------------------------------------------------------------- cplex stand-in

class _Param:
    def __getattr__(self, name):
        if name.startswith('__'):
            raise AttributeError(name)
        p = _Param()
        object.__setattr__(self, name, p)
        return p

    def set(self, value):
        object.__setattr__(self, '_value', value)

    def get(self):
        return getattr(self, '_value', None)


class _Sense:
    minimize = 1
    maximize = -1


class _Objective:
    sense = _Sense

    def __init__(self, prob):
        self._p = prob

    def set_sense(self, s):
        self._p._sense = s


class _Variables:
    def __init__(self, prob):
        self._p = prob

    def add(self, obj=None, lb=None, ub=None, types="", names=None, columns=None):
        obj = list(obj or [])
        k = len(obj)
        names = list(names) if names is not None else ['x%d' % (len(self._p._names) + i) for i in range(k)]
        lb = list(lb) if lb is not None else [0.0] * k
        ub = list(ub) if ub is not None else [1.0] * k
        if not (len(names) == len(lb) == len(ub) == k) or (types and len(types) != k):
            raise StubSolverError("CPLEX Error 1200-like: inconsistent lengths in variables.add")
        for i in range(k):
            if types and types[i] != 'B':
                raise StubSolverError("stand-in handles binary variables only")
            if names[i] in self._p._index:
                raise StubSolverError("duplicate variable name %s" % names[i])
            if lb[i] > ub[i]:
                raise StubSolverError("lb > ub")
            self._p._index[names[i]] = len(self._p._names)
            self._p._names.append(names[i])
            self._p._obj.append(float(obj[i]))
            self._p._lb.append(float(lb[i]))
            self._p._ub.append(float(ub[i]))
        return range(len(self._p._names) - k, len(self._p._names))

    def get_num(self):
        return len(self._p._names)

    def get_names(self):
        return list(self._p._names)


class _Constraints:
    def __init__(self, prob):
        self._p = prob

    def add(self, lin_expr=None, senses="", rhs=None, names=None, range_values=None):
        lin_expr = list(lin_expr or [])
        rhs = list(rhs or [])
        k = len(lin_expr)
        if len(senses) != k or len(rhs) != k or (names is not None and len(names) != k):
            raise StubSolverError("CPLEX Error 1200-like: lin_expr/senses/rhs/names lengths differ: %d %d %d %s"
                                  % (k, len(senses), len(rhs), None if names is None else len(names)))
        for row, s, b in zip(lin_expr, senses, rhs):
            ind, val = row[0], row[1]
            if len(ind) != len(val):
                raise StubSolverError("row with %d indices and %d values" % (len(ind), len(val)))
            acc = {}
            for name, c in zip(ind, val):
                if isinstance(name, str):
                    if name not in self._p._index:
                        raise StubSolverError("CPLEX Error 1210-like: unknown variable name %r" % name)
                    j = self._p._index[name]
                else:
                    j = int(name)
                    if not 0 <= j < len(self._p._names):
                        raise StubSolverError("variable index out of range")
                if j in acc:
                    raise StubSolverError("CPLEX Error 1222-like: duplicate entry for %r in a row" % name)
                acc[j] = float(c)
            if s not in 'ELG':
                raise StubSolverError("sense %r" % s)
            self._p._rows.append((tuple(acc.keys()), tuple(acc.values())))
            self._p._senses.append(s)
            self._p._rhs.append(float(b))

    def get_num(self):
        return len(self._p._rows)


class _Pool:
    def __init__(self, prob):
        self._p = prob

    def get_num(self):
        if self._p._pool is None:
            raise StubSolverError("no solution pool")
        return len(self._p._pool)

    def get_values(self, i, *a):
        return [float(x) for x in self._p._pool[i]]

    def get_objective_value(self, i):
        return float(np.dot(self._p._pool[i], self._p._obj))


class _Solution:
    def __init__(self, prob):
        self._p = prob
        self.pool = _Pool(prob)

    def get_values(self, *a):
        if self._p._sol is None:
            raise StubSolverError("CPLEX Error 1217-like: no solution exists")
        if a:
            raise StubSolverError("stand-in: get_values() with arguments not modelled")
        return [float(x) for x in self._p._sol]

    def get_objective_value(self):
        return float(np.dot(self._p._sol, self._p._obj))

    def get_status(self):
        return 101


class Cplex:
    def __init__(self, *a):
        self._names, self._index, self._obj, self._lb, self._ub = [], {}, [], [], []
        self._rows, self._senses, self._rhs = [], [], []
        self._sense = _Sense.minimize
        self._sol = None
        self._pool = None
        self.parameters = _Param()
        self.objective = _Objective(self)
        self.variables = _Variables(self)
        self.linear_constraints = _Constraints(self)
        self.solution = _Solution(self)

    def set_results_stream(self, *a):
        pass

    set_log_stream = set_error_stream = set_warning_stream = set_results_stream

    def _feasible(self):
        n = len(self._names)
        rows, senses, rhs = list(self._rows), list(self._senses), list(self._rhs)
        # variable bounds other than [0,1] become rows
        for j in range(n):
            if self._lb[j] > 0:
                rows.append(((j,), (1.0,)))
                senses.append('G')
                rhs.append(self._lb[j])
            if self._ub[j] < 1:
                rows.append(((j,), (1.0,)))
                senses.append('L')
                rhs.append(self._ub[j])
        return enumerate_feasible(n, rows, senses, rhs)

    def _optimal(self):
        feas = self._feasible()
        obj = np.asarray(self._obj) * (1.0 if self._sense == _Sense.minimize else -1.0)
        best, idx, vals = optimal_points(feas, obj)
        LAST.clear()
        LAST.update(names=list(self._names), obj=list(self._obj), feasible=feas, optimal_idx=idx, values=vals,
                    best=best, nrows=len(self._rows))
        return feas, idx

    def solve(self):
        STATS['solves'] += 1
        feas, idx = self._optimal()
        self._sol = feas[pick(list(idx), 'cplex.solve')]

    def populate_solution_pool(self):
        STATS['populates'] += 1
        feas, idx = self._optimal()
        self._pool = [feas[i] for i in idx]
        self._sol = self._pool[0]


class _Callback:
    pass


def build_cplex_module():
    m = types.ModuleType('cplex')
    m.Cplex = Cplex
    m.__version__ = '0.0-standin'
    m.SparsePair = lambda ind=(), val=(): [list(ind), list(val)]
    cb = types.ModuleType('cplex.callbacks')
    cb.Callback = _Callback
    for n in ('MIPInfoCallback', 'LazyConstraintCallback', 'UserCutCallback', 'BranchCallback', 'IncumbentCallback'):
        setattr(cb, n, type(n, (_Callback,), {}))
    m.callbacks = cb
    ex = types.ModuleType('cplex.exceptions')
    ex.CplexError = StubSolverError
    ex.CplexSolverError = StubSolverError
    m.exceptions = ex
    m.__is_standin__ = True
    return m, cb, ex


def install_cplex_stub():
    if 'corankco' in sys.modules:
        raise HarnessError("cplex stand-in must be installed before corankco is imported")
    m, cb, ex = build_cplex_module()
    sys.modules['cplex'] = m
    sys.modules['cplex.callbacks'] = cb
    sys.modules['cplex.exceptions'] = ex
    return m


# ----------------------------------------------------------------------------- PuLP solver stand-in

def make_pulp_enum_solver():
    import pulp

    class EnumSolver(pulp.LpSolver):
        """Drop-in for pulp.PULP_CBC_CMD: enumerates the 0/1 feasible set; the chooser decides which
        optimal point is handed back."""
        name = 'MC_ENUM'

        def __init__(self, msg=False, **kw):
            pulp.LpSolver.__init__(self, msg=msg)

        def available(self):
            return True

        def actualSolve(self, lp, **kw):
            variables = lp.variables()
            index = {v.name: i for i, v in enumerate(variables)}
            rows, senses, rhs = [], [], []
            for v in variables:
                if v.lowBound is not None and v.lowBound == v.upBound and v.lowBound in (0, 1):
                    # a fixed variable (PuLP's own "__dummy" for an empty objective): one equality row
                    rows.append(((index[v.name],), (1.0,)))
                    senses.append('E')
                    rhs.append(float(v.lowBound))
                elif v.cat != pulp.LpInteger or v.lowBound != 0 or v.upBound != 1:
                    raise StubSolverError("stand-in handles binary variables only: %s" % v.name)
            for cname, c in lp.constraints.items():
                idx = tuple(index[v.name] for v in c.keys())
                coef = tuple(float(x) for x in c.values())
                rows.append((idx, coef))
                senses.append({pulp.LpConstraintLE: 'L', pulp.LpConstraintEQ: 'E', pulp.LpConstraintGE: 'G'}[c.sense])
                rhs.append(-float(c.constant))
            feas = enumerate_feasible(len(variables), rows, senses, rhs)
            obj = np.zeros(len(variables))
            if lp.objective is not None:
                for v, c in lp.objective.items():
                    obj[index[v.name]] = float(c)
            if lp.sense == pulp.LpMaximize:
                obj = -obj
            best, idx, vals = optimal_points(feas, obj)
            LAST.clear()
            LAST.update(names=[v.name for v in variables], obj=list(obj), feasible=feas, optimal_idx=idx, values=vals,
                        best=best, nrows=len(rows))
            STATS['solves'] += 1
            point = feas[pick(list(idx), 'pulp.solve')]
            for v, x in zip(variables, point):
                v.varValue = float(x)
            lp.assignStatus(pulp.LpStatusOptimal)
            return pulp.LpStatusOptimal

    return EnumSolver

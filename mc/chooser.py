"""Choice controller (DESIGN.md 2.3): every draw the library makes from the `random` module is an
enumerated choice point.  harness.install_random_sentinel() replaces the functions of the `random`
module BEFORE corankco is imported, so `from random import choice` in the library binds these
dispatchers; a draw while no chooser is active raises UnownedRandomness."""
import math
from itertools import permutations
from .harness import HarnessError, UnownedRandomness

ACTIVE = None


class Chooser:
    def __init__(self, prefix=()):
        self.prefix = list(prefix)
        self.trace = []   # (kind, arity, choice)
        self.picked = []  # the values handed back by choice() (e.g. KwikSort pivots), in order
        self.i = 0

    def choose(self, arity, kind='?'):
        if arity <= 0:
            raise HarnessError("choice point with arity %d (%s)" % (arity, kind))
        if self.i < len(self.prefix):
            c = self.prefix[self.i]
            if c >= arity:
                raise HarnessError("scripted choice %d out of range %d at point %d (%s): replay diverged"
                                   % (c, arity, self.i, kind))
        else:
            c = 0
        self.trace.append((kind, arity, c))
        self.i += 1
        return c

    def choices(self):
        return [c for _, _, c in self.trace]

    def __enter__(self):
        global ACTIVE
        if ACTIVE is not None:
            raise HarnessError("nested choosers")
        ACTIVE = self
        return self

    def __exit__(self, *a):
        global ACTIVE
        ACTIVE = None
        return False


def _active(name):
    if ACTIVE is None:
        raise UnownedRandomness("random.%s called while no chooser is active" % name)
    return ACTIVE


def d_choice(seq):
    seq = list(seq) if not hasattr(seq, '__getitem__') else seq
    if len(seq) == 0:
        raise IndexError('Cannot choose from an empty sequence')
    ch = _active('choice')
    v = seq[ch.choose(len(seq), 'choice')]
    ch.picked.append(v)
    return v


def d_randint(a, b):
    return a + _active('randint').choose(b - a + 1, 'randint')


def d_randrange(start, stop=None, step=1):
    if stop is None:
        start, stop = 0, start
    vals = range(start, stop, step)
    return vals[_active('randrange').choose(len(vals), 'randrange')]


def d_shuffle(lst):
    n = len(lst)
    k = _active('shuffle').choose(math.factorial(n), 'shuffle')
    items = list(lst)
    perm = []
    for i in range(n, 0, -1):
        f = math.factorial(i - 1)
        perm.append(items.pop(k // f))
        k %= f
    lst[:] = perm


def d_sample(population, k):
    pop = list(population)
    out = []
    for _ in range(k):
        out.append(pop.pop(_active('sample').choose(len(pop), 'sample')))
    return out


DISPATCH = {'choice': d_choice, 'randint': d_randint, 'randrange': d_randrange, 'shuffle': d_shuffle,
            'sample': d_sample}


def explore(run, max_runs=None):
    """Stateless exhaustive exploration of the whole choice tree of `run(chooser)`.
    Yields (choices, trace, result).  `run` is called inside the chooser context."""
    stack = [[]]
    runs = 0
    while stack:
        prefix = stack.pop()
        ch = Chooser(prefix)
        with ch:
            result = run(ch)
        if ch.i < len(prefix):
            raise HarnessError("replay of prefix %r consumed only %d choices: diverged" % (prefix, ch.i))
        runs += 1
        if max_runs is not None and runs > max_runs:
            raise HarnessError("choice tree larger than the stated cap %d" % max_runs)
        cs = ch.choices()
        for i in range(len(prefix), len(ch.trace)):
            arity = ch.trace[i][1]
            for alt in range(arity - 1, 0, -1):
                stack.append(cs[:i] + [alt])
        yield cs, ch.trace, result


def run_with(run, choices):
    ch = Chooser(choices)
    with ch:
        result = run(ch)
    if ch.i < len(choices):
        raise HarnessError("replay consumed %d of %d choices" % (ch.i, len(choices)))
    return ch.trace, result

#!/venv/bin/python
"""mc/run.py <Cxx> [--tier quick|thorough] [--replay file] [--repo /repo] [--workers N]

Exit 0: property held on everything explored (KNOWN-FINDING lines possible);
exit 1: at least one 'VIOLATION property=<id> replay=<path>' line;
exit 2: the machinery itself failed (never reported as a violation).
"""
import argparse
import importlib
import json
import os
import shutil
import subprocess
import sys
import time

HERE = os.path.dirname(os.path.abspath(__file__))
VERIF = os.path.dirname(HERE)
if VERIF not in sys.path:
    sys.path.insert(0, VERIF)

from mc import harness  # noqa: E402


def main():
    ap = argparse.ArgumentParser()
    ap.add_argument('prop')
    ap.add_argument('--tier', default=os.environ.get('VERIF_TIER', 'quick'), choices=['quick', 'thorough'])
    ap.add_argument('--replay')
    ap.add_argument('--repo', default=os.environ.get('MC_REPO', '/repo'))
    ap.add_argument('--workers', type=int, default=int(os.environ.get('MC_WORKERS', '0')) or min(16, os.cpu_count() or 1))
    ap.add_argument('--no-evidence', action='store_true')
    args = ap.parse_args()
    try:
        seed = int(os.environ.get('VERIF_SEED', '0') or 0)
    except ValueError:
        seed = 0
    repo = os.path.abspath(args.repo)
    harness.pin_environment(repo, seed)
    prop = args.prop.upper()
    t0 = time.time()
    try:
        code = run(prop, args, seed, repo, t0)
    except harness.HarnessError as e:
        sys.stdout.flush()
        sys.stderr.write("HARNESS ERROR (%s): %s\n" % (prop, e))
        code = 2
    except Exception:
        import traceback
        sys.stderr.write("HARNESS ERROR (%s):\n%s\n" % (prop, traceback.format_exc()))
        code = 2
    sys.stdout.flush()
    sys.exit(code)


def warm_up(repo):
    """Populate the numba on-disk cache serially before 16 workers import the library."""
    r = subprocess.run([sys.executable, '-c',
                        'import sys; sys.path.insert(0, %r); import corankco, os; '
                        'assert os.path.realpath(os.path.dirname(os.path.dirname(corankco.__file__)))'
                        ' == os.path.realpath(%r), corankco.__file__' % (repo, repo)],
                       capture_output=True, text=True)
    if r.returncode != 0:
        # a tree that does not even import is reported by every check as a harness error
        raise harness.HarnessError("corankco does not import from %s:\n%s" % (repo, r.stderr[-3000:]))


def run(prop, args, seed, repo, t0):
    from mc import refmodel
    modname = 'mc.checks.' + prop.lower()
    try:
        check = importlib.import_module(modname)
    except ModuleNotFoundError as e:
        raise harness.HarnessError("no check for %s (%s)" % (prop, e))
    refmodel.self_check()
    warm_up(repo)
    tmpdir = os.path.join(harness.CACHE, 'tmp', '%s_%d' % (prop, os.getpid()))
    os.makedirs(tmpdir, exist_ok=True)
    try:
        if args.replay:
            return do_replay(check, prop, args.replay, tmpdir)
        return do_check(check, modname, prop, args, seed, tmpdir, t0)
    finally:
        shutil.rmtree(tmpdir, ignore_errors=True)


def _replay_child(check, prop, v, tmpdir, conn):
    try:
        cfg = dict(v.get('case', {}).get('cfg', {}) or {})
        cfg['tmpdir'] = tmpdir
        os.environ['TMPDIR'] = tmpdir
        check.init_worker(cfg)
        ctx = harness.Ctx(prop)
        check.replay(ctx, v['case'])
        res = ctx.result()
        res['outcomes'] = []
        conn.send(('ok', res))
    except BaseException:
        import traceback
        conn.send(('error', traceback.format_exc()))


def do_replay(check, prop, path, tmpdir):
    import multiprocessing as mp
    with open(path) as f:
        v = json.load(f)
    # the replay runs in a child so that an input on which the library never returns can be reported
    ctx = mp.get_context('fork')
    parent, child = ctx.Pipe()
    p = ctx.Process(target=_replay_child, args=(check, prop, v, tmpdir, child))
    p.start()
    limit = float(os.environ.get('MC_REPLAY_TIMEOUT', 300))
    if parent.poll(limit):
        status, res = parent.recv()
        p.join(10)
    else:
        p.kill()
        p.join()
        print("replayed violation: the library did not return within %.0f s on this input" % limit)
        print("VIOLATION property=%s replay=%s" % (prop, path))
        return 1
    if status == 'error':
        raise harness.HarnessError("replay failed:\n" + res)
    if res['total_violations']:
        for vv in res['violations']:
            print("replayed violation: clause=%s site=%s observed=%s expected=%s %s" % (
                vv['clause'], vv['site'], json.dumps(vv['observed'])[:300], json.dumps(vv['expected'])[:300],
                vv.get('exception', '')))
        print("VIOLATION property=%s replay=%s" % (prop, path))
        return 1
    print("replay: case no longer violates %s" % prop)
    return 0


def merge_plans(quick, thorough):
    """the thorough tier explores everything the quick tier explores, plus its own blocks."""
    by_name, order = {}, []
    for src in (quick, thorough):
        for ph in src:
            if ph['name'] not in by_name:
                by_name[ph['name']] = {'name': ph['name'], 'cfg': dict(ph.get('cfg', {})), 'shards': [], 'expected_cases': 0,
                                       '_seen': set()}
                order.append(ph['name'])
            tgt = by_name[ph['name']]
            tgt['cfg'].update(ph.get('cfg', {}))
            dropped = False
            for sh in ph['shards']:
                key = json.dumps(harness.jsonable(sh), sort_keys=True)
                if key in tgt['_seen']:
                    dropped = True
                    continue
                tgt['_seen'].add(key)
                tgt['shards'].append(sh)
            if ph.get('expected_cases') is None or dropped or tgt['expected_cases'] is None:
                tgt['expected_cases'] = None
            else:
                tgt['expected_cases'] += ph['expected_cases']
    out = []
    for name in order:
        ph = by_name[name]
        ph.pop('_seen')
        out.append(ph)
    return out


def do_check(check, modname, prop, args, seed, tmpdir, t0):
    phases = check.plan(args.tier, seed)
    if args.tier == 'thorough':
        phases = merge_plans(check.plan('quick', seed), phases)
    all_results = []
    phase_info = []
    for ph in phases:
        cfg = dict(ph.get('cfg', {}))
        cfg['tmpdir'] = tmpdir
        cfg['seed'] = seed
        cfg['tier'] = args.tier
        tp = time.time()
        try:
            res = harness.run_pool(modname, cfg, ph['shards'], args.workers)
        except harness.Hang as h:
            return report_hang(prop, h, args, seed, t0, ph['name'])
        merged_ph = harness.merge(res)
        phase_info.append({'name': ph['name'], 'shards': len(ph['shards']), 'executions': merged_ph['evals'],
                           'cases': merged_ph['cases'], 'wall_s': round(time.time() - tp, 1),
                           'expected_cases': ph.get('expected_cases')})
        if ph.get('expected_cases') is not None and merged_ph['cases'] != ph['expected_cases']:
            raise harness.HarnessError("phase %s enumerated %d cases, closed form says %d — enumeration truncated?"
                                       % (ph['name'], merged_ph['cases'], ph['expected_cases']))
        all_results.extend(res)
    merged = harness.merge(all_results)
    coverage, assumptions, guards = check.summarize(args.tier, seed, merged, phase_info)
    # vacuity guards: only when nothing was violated (a broken library may legitimately starve a guard, e.g. by
    # raising everywhere; the violations are then what has to be reported)
    if merged['total_violations'] == 0:
        for name, value in guards:
            if not value:
                raise harness.HarnessError("vacuity guard '%s' counted 0 — the exploration did not reach what it claims" % name)
    # violations vs known findings
    known = harness.load_known(prop)
    new_viol = []
    known_hit = {}
    for v in merged['violations']:
        e = harness.match_known(v, known)
        if e is not None:
            known_hit.setdefault(e.get('id', e.get('what', '?')), e)
        else:
            new_viol.append(v)
    for kid, e in known_hit.items():
        print("KNOWN-FINDING: property=%s %s" % (prop, e.get('what', kid)))
    paths = []
    seen_sig = set()
    for v in new_viol:
        sig = (v['clause'], v['site'])
        if sig in seen_sig:
            continue
        seen_sig.add(sig)
        paths.append((harness.write_violation(v), v))
    wall = time.time() - t0
    cov = {
        'states': merged['cases'],
        'transitions': merged['evals'],
        'traces_validated_against_impl': merged['evals'],
        'evaluations': merged['evals'],
        'distinct_nontrivial': merged['nontrivial'],
        'distinct_outcomes_observed': len(merged['outcomes']),
        'distinct_outcomes_saturated': merged['outcomes_saturated'],
        'samples': merged['samples'][:4] or ['(none)'],
        'counters': merged['counters'],
        'phases': phase_info,
        'violation_signatures': merged['sig_counts'],
        'exhaustive': True,
    }
    cov.update(coverage)
    if not args.no_evidence:
        harness.write_evidence(prop, args.tier, seed, cov, assumptions, wall, merged['total_violations'])
    print("%s %s seed=%d: states=%d executions=%d nontrivial=%d outcomes=%d violations=%d wall=%.1fs" % (
        prop, args.tier, seed, merged['cases'], merged['evals'], merged['nontrivial'], len(merged['outcomes']),
        merged['total_violations'], wall))
    for k in sorted(merged['counters']):
        print("   %-40s %d" % (k, merged['counters'][k]))
    if paths:
        for k, n in sorted(merged['sig_counts'].items()):
            print("   violation signature %s: %d" % (k, n))
        for p, v in paths:
            print("   %s @ %s: observed=%s expected=%s %s" % (v['clause'], v['site'], json.dumps(v['observed'])[:200],
                                                            json.dumps(v['expected'])[:200], v.get('exception', '')))
            print("VIOLATION property=%s replay=%s" % (prop, p))
        return 1
    return 0


def report_hang(prop, h, args, seed, t0, phase):
    """The library did not return on some input(s): a violation of every property (each one promises a result)."""
    real = [c for c in h.cases if not (isinstance(c, dict) and 'note' in c)]
    if not real:
        raise harness.HarnessError("a worker made no progress but had not started an execution: %r" % (h.cases,))
    known = harness.load_known(prop)
    code = 0
    for c in real:
        v = {'property': prop, 'clause': 'no-termination', 'site': 'no-termination', 'case': c,
             'observed': 'the library did not return (worker stuck on this execution; pool killed)', 'expected': 'a result'}
        e = harness.match_known(v, known)
        if e is not None:
            print("KNOWN-FINDING: property=%s %s" % (prop, e.get('what', '?')))
            continue
        path = harness.write_violation(v)
        print("   no-termination: %s" % json.dumps(c)[:300])
        print("VIOLATION property=%s replay=%s" % (prop, path))
        code = 1
    if not args.no_evidence:
        harness.write_evidence(prop, args.tier, seed, {
            'states': 1, 'transitions': 1, 'traces_validated_against_impl': 1, 'samples': real[:3],
            'exhaustive': False, 'rule': 'run aborted in phase %s: the library did not return on the sampled input(s)' % phase},
            ['run aborted by a hang'], time.time() - t0, len(real))
    return code


if __name__ == '__main__':
    main()

"""Finite spaces enumerated by the checks (DESIGN.md section 1 / 2.1).

Abstract representation (no corankco objects here):
  * an element is a small int 0..n-1,
  * a ranking is a tuple of buckets, each bucket a tuple of ints in increasing order,
  * a dataset is a tuple of rankings (ORDERED: element ids are given by first appearance),
  * a scheme is a pair (B, T) of 6-tuples of floats.
Every enumerator has a closed-form count used by the runner to assert that nothing was
silently truncated.
"""
from itertools import combinations, product, permutations

FUBINI = [1, 1, 3, 13, 75, 541, 4683, 47293, 545835]
# number of rankings with ties of all subsets of an n-set (incl. the empty ranking)
SWO_COUNT = [1, 2, 6, 26, 150, 1082, 9366, 94586]

_wo_cache = {}


def weak_orders(elems):
    """All rankings with ties (ordered set partitions) of the tuple `elems`, simplest first:
    fewer buckets first is NOT guaranteed, but the all-tied ranking comes first."""
    elems = tuple(elems)
    if elems in _wo_cache:
        return _wo_cache[elems]
    if not elems:
        res = [()]
    else:
        res = []
        k = len(elems)
        # first bucket = any non-empty subset, larger first so that "all tied" is first
        for size in range(k, 0, -1):
            for first in combinations(elems, size):
                rest = tuple(e for e in elems if e not in first)
                for tail in weak_orders(rest):
                    res.append((first,) + tail)
    assert len(res) == FUBINI[len(elems)]
    _wo_cache[elems] = res
    return res


_swo_cache = {}


def sub_weak_orders(n):
    """SWO(n): all rankings with ties of all subsets of range(n), empty ranking first,
    then by increasing domain size."""
    if n in _swo_cache:
        return _swo_cache[n]
    res = []
    for size in range(0, n + 1):
        for dom in combinations(range(n), size):
            res.extend(weak_orders(dom))
    assert len(res) == SWO_COUNT[n], (len(res), n)
    _swo_cache[n] = res
    return res


def ds_size(n, m):
    """|DS(n,m)|: ordered m-tuples of SWO(n) with non-empty union."""
    return SWO_COUNT[n] ** m - 1


def ds_decode(n, m, index):
    """index in [0, SWO_COUNT[n]**m) -> dataset (tuple of rankings); index 0 is the all-empty
    tuple (not a dataset; callers skip it)."""
    swo = sub_weak_orders(n)
    base = len(swo)
    digits = []
    for _ in range(m):
        digits.append(index % base)
        index //= base
    return tuple(swo[d] for d in reversed(digits))


def ds_iter(n, m, shard=0, nshards=1):
    """Datasets of DS(n,m) whose index is congruent to `shard` modulo `nshards`."""
    total = SWO_COUNT[n] ** m
    for index in range(1 + shard, total, nshards) if nshards > 1 else range(1, total):
        yield index, ds_decode(n, m, index)


ON_DATASET = None   # progress hook installed by the harness in worker processes


def ds_iter_strided(n, m, shard, nshards):
    total = SWO_COUNT[n] ** m
    for index in range(shard, total, nshards):
        if index == 0:
            continue
        if ON_DATASET is not None:
            ON_DATASET(n, m, index)
        yield index, ds_decode(n, m, index)


def universe_of(dataset):
    u = set()
    for r in dataset:
        for b in r:
            u.update(b)
    return tuple(sorted(u))


def first_appearance_order(dataset):
    seen = []
    s = set()
    for r in dataset:
        for b in r:
            for x in b:
                if x not in s:
                    s.add(x)
                    seen.append(x)
    return seen


def is_complete(dataset):
    u = set(universe_of(dataset))
    return all(set(x for b in r for x in b) == u for r in dataset)


def has_ties(dataset):
    return any(len(b) > 1 for r in dataset for b in r)


def subsets(elems, min_size=0):
    elems = tuple(elems)
    for size in range(min_size, len(elems) + 1):
        for s in combinations(elems, size):
            yield s


def single_element_moves(ranking):
    """All rankings obtained from `ranking` (tuple of tuples) by moving ONE element into another
    existing bucket or into a new bucket at any position. Yields (elem, kind, target, new_ranking)."""
    buckets = [list(b) for b in ranking]
    for bi, b in enumerate(buckets):
        for x in b:
            rest = [[y for y in bb if y != x] for bb in buckets]
            rest_ne = [bb for bb in rest if bb]
            # where was x's bucket in rest_ne (or did it vanish)?
            # join every existing bucket of the remainder other than its own
            own_idx = None
            idx = 0
            for j, bb in enumerate(rest):
                if bb:
                    if j == bi:
                        own_idx = idx
                    idx += 1
            for j in range(len(rest_ne)):
                if j == own_idx:
                    continue
                new = [tuple(sorted(bb + [x])) if jj == j else tuple(sorted(bb))
                       for jj, bb in enumerate(rest_ne)]
                yield x, 'join', j, tuple(new)
            for j in range(len(rest_ne) + 1):
                new = [tuple(sorted(bb)) for bb in rest_ne]
                new.insert(j, (x,))
                new = tuple(new)
                if new != tuple(tuple(sorted(bb)) for bb in buckets):
                    yield x, 'new', j, new


# ----------------------------------------------------------------------------- schemes

def scheme_valid(B, T):
    return (len(B) == 6 and len(T) == 6 and all(v >= 0 for v in B) and all(v >= 0 for v in T)
            and B[0] == 0 and B[1] > 0 and B[3] <= B[4] and T[0] == T[1] and T[2] == 0 and T[3] == T[4])


def schemes_over(values):
    """SCH(V): all valid schemes with penalties in `values` (8 free parameters)."""
    res = []
    vs = list(values)
    for b1 in vs:
        if b1 <= 0:
            continue
        for b2 in vs:
            for b3 in vs:
                for b4 in vs:
                    if b3 > b4:
                        continue
                    for b5 in vs:
                        for t0 in vs:
                            for t3 in vs:
                                for t5 in vs:
                                    res.append(((0.0, float(b1), float(b2), float(b3), float(b4), float(b5)),
                                                (float(t0), float(t0), 0.0, float(t3), float(t3), float(t5))))
    return res


K = 64.0
POSITIONAL = ((0.0, 1.0, K, K ** 2, K ** 3, K ** 4), (K ** 5, K ** 5, 0.0, K ** 6, K ** 6, K ** 7))


def _s(B, T):
    return (tuple(float(x) for x in B), tuple(float(x) for x in T))


UNIFYING = _s([0, 1, 1, 0, 1, 1], [1, 1, 0, 1, 1, 0])
UNIFYING_05 = _s([0, 1, .5, 0, 1, .5], [.5, .5, 0, .5, .5, 0])
INDUCED = _s([0, 1, 1, 0, 0, 0], [1, 1, 0, 0, 0, 0])
INDUCED_05 = _s([0, 1, .5, 0, 0, 0], [.5, .5, 0, 0, 0, 0])
PSEUDO = _s([0, 1, 1, 0, 1, 0], [1, 1, 0, 1, 1, 0])
PSEUDO_05 = _s([0, 1, .5, 0, 1, 0], [.5, .5, 0, .5, .5, 0])
EXTENDED = _s([0, 1, 0, 0, 0, 0], [1, 1, 0, 1, 1, 1])
UNIFYING_X3 = _s([0, 3, 3, 0, 3, 3], [3, 3, 0, 3, 3, 0])
INDUCED_X05 = _s([0, .5, .5, 0, 0, 0], [.5, .5, 0, 0, 0, 0])
ZERO_HEAVY = _s([0, 1, 0, 0, 0, 0], [0, 0, 0, 0, 0, 0])
B3LTB4 = _s([0, 2, 1, 1, 3, 2], [1, 1, 0, 2, 2, 1])
B5GTT5 = _s([0, 1, 1, 0, 1, 2], [1, 1, 0, 1, 1, 0])
B5LTT5 = _s([0, 1, 1, 0, 1, 0], [1, 1, 0, 1, 1, 2])
UNIF_B_OTHER_T = _s([0, 1, 1, 0, 1, 1], [2, 2, 0, 2, 2, 0])
IND_B_OTHER_T = _s([0, 1, 1, 0, 0, 0], [1, 1, 0, 1, 1, 0])

# p in [1/3, 1/2): on a Condorcet cycle a tie is cheaper than the mean of before/after but not than their minimum
UNIFYING_P0375 = _s([0, 1, .375, 0, 1, .375], [.375, .375, 0, .375, .375, 0])
# every penalty a multiple of 2**-11 (< 0.001): cost differences below the library's absolute 0.001 tolerances
TINY = 2.0 ** -11
UNIFYING_TINY = _s([x * TINY for x in [0, 1, 1, 0, 1, 1]], [x * TINY for x in [1, 1, 0, 1, 1, 0]])
INDUCED05_TINY = _s([x * TINY for x in [0, 1, .5, 0, 0, 0]], [x * TINY for x in [.5, .5, 0, 0, 0, 0]])

B5EQT5 = _s([0, 1, 1, 0, 1, 1], [1, 1, 0, 1, 1, 1])    # B[5] == T[5] > 0: no preset has it

B1BIG = _s([0, 1024, .5, 0, 1024, .5], [.5, .5, 0, .5, .5, 0])    # B[1] three orders of magnitude above the rest

B1EQ3T0 = _s([0, 3, 2, 0, 3, 0], [1, 1, 0, 1, 1, 0])      # B[1] = 3 T[0]: a 2-1 majority costs as much as a tie

# every pair unranked together costs 2**40 whatever its placement: scores share a huge constant (~1e12) and differ
# by units (all sums stay below 2**53, hence exact)
B5T5HUGE = _s([0, 1, 1, 0, 1, 2 ** 40], [1, 1, 0, 1, 1, 2 ** 40])

# a huge constant part (2**20 per pair unranked together) AND tiny units (2**-11): relative differences ~1e-10,
# absolute differences ~5e-4, improvements below BioConsert's 0.001 threshold
HUGE_TINY = _s([0, TINY, TINY, 0, TINY, 2 ** 20], [TINY, TINY, 0, TINY, TINY, 2 ** 20])

SCHQ = [
    ('unifying', UNIFYING), ('unifying_p05', UNIFYING_05), ('induced', INDUCED), ('induced_p05', INDUCED_05),
    ('pseudo', PSEUDO), ('pseudo_p05', PSEUDO_05), ('extended', EXTENDED), ('unifying_x3', UNIFYING_X3),
    ('induced_x05', INDUCED_X05), ('positional', POSITIONAL), ('zero_heavy', ZERO_HEAVY), ('b3ltb4', B3LTB4),
    ('b5gtt5', B5GTT5), ('b5ltt5', B5LTT5), ('unifB_otherT', UNIF_B_OTHER_T), ('indB_otherT', IND_B_OTHER_T),
    ('unifying_p0375', UNIFYING_P0375), ('b5eqt5', B5EQT5), ('b1big', B1BIG), ('b5t5huge', B5T5HUGE),
]
SCHQ_BY_NAME = dict(SCHQ)
for _n, (_b, _t) in SCHQ:
    assert scheme_valid(_b, _t), _n


def strings_over(alphabet, max_len):
    for L in range(0, max_len + 1):
        for t in product(alphabet, repeat=L):
            yield ''.join(t)


def strings_count(k, max_len):
    return sum(k ** L for L in range(0, max_len + 1))


# ----------------------------------------------------------------------------- labels

LABEL_SETS = {
    # name -> function n -> list of concrete labels for abstract elements 0..n-1
    'ints': lambda n: list(range(n)),
    'ints_rev': lambda n: list(range(n - 1, -1, -1)),
    'ints_collide': lambda n: [8 * i for i in range(n)],
    'ints_collide_rev': lambda n: [8 * (n - 1 - i) for i in range(n)],
    'letters': lambda n: [chr(ord('a') + i) for i in range(n)],
    'letters_rev': lambda n: [chr(ord('a') + n - 1 - i) for i in range(n)],
    'digit_strings': lambda n: [str(10 + i) for i in range(n)],
    'mixed_strings': lambda n: (['a'] + [str(i) for i in range(1, n)]),
    'mixed_zeros': lambda n: (['x'] + ['0%d' % i for i in range(1, n)]),   # digit strings with a leading zero
    'words': lambda n: ['g%d_x' % (7 * i % 5) + 'ab'[i % 2] * (i + 1) for i in range(n)],
}


def label_choices(seed, k=1, exclude=('ints',)):
    names = [x for x in LABEL_SETS if x not in exclude]
    out = []
    for i in range(k):
        out.append(names[(seed + i * 3) % len(names)])
    return out

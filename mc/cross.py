"""Shared driver for the cross-algorithm checks: enumerates dataset block x schemes x configurations
x flags x ALL schedules, runs the real algorithm on FRESH dataset / scheme objects and hands every
execution to the check's oracle."""
from . import spaces, refmodel, harness, algos
from .harness import Ctx


class Ref:
    """lazy reference facts about one (dataset, scheme)."""

    def __init__(self, ds, universe, s):
        self.ds, self.universe, self.s = ds, universe, s
        self._table = None
        self._opt = None

    @property
    def table(self):
        if self._table is None:
            self._table = refmodel.ref_table(self.universe, self.ds, self.s[0], self.s[1])
        return self._table

    def score(self, ranking):
        return refmodel.score_from_table(ranking, self.table)

    @property
    def optimum(self):
        if self._opt is None:
            self._opt = refmodel.ref_optimum(self.universe, self.table)
        return self._opt


class Info:
    __slots__ = ('ds', 'lname', 'n', 'universe', 'labels', 's', 'sname', 'cfg', 'one', 'choices', 'status', 'value',
                 'back', 'ref', 'mode', 'dataset', 'scheme')

    def case(self, **extra):
        c = {'cfg': {'mode': self.mode}, 'dataset': self.ds, 'labels': self.lname, 'n': self.n, 'scheme': self.s,
             'config': self.cfg.name, 'one': self.one, 'schedule': self.choices}
        c.update(extra)
        return c

    def rankings(self):
        """abstract rankings of an 'ok' result (assumes well-formedness was checked or is checked by caller)."""
        return [self.back.ranking(r) for r in self.value.consensus_rankings]


SCHEME_KINDS = {
    'all': [s for _, s in spaces.SCHQ],
    'four': [spaces.UNIFYING, spaces.INDUCED_05, spaces.PSEUDO, spaces.B3LTB4],
    'six': [spaces.UNIFYING, spaces.INDUCED_05, spaces.PSEUDO, spaces.B3LTB4, spaces.POSITIONAL, spaces.B5LTT5],
    'three': [spaces.UNIFYING, spaces.PSEUDO, spaces.B5LTT5],
    'two': [spaces.UNIFYING, spaces.B3LTB4],
    'two_b': [spaces.UNIFYING, spaces.PSEUDO_05],
    'one': [spaces.UNIFYING],
    'one_b': [spaces.B3LTB4],
}


def select_configs(mode, want):
    """want: callable(Config) -> bool, or list of names."""
    cs = algos.all_configs(mode)
    if callable(want):
        return [c for c in cs if want(c)]
    by = {c.name: c for c in cs + algos.nested_configs(mode)}
    out = []
    for name in want:
        if name in by:
            out.append(by[name])
        elif not name.startswith('ExactCplex'):
            raise harness.HarnessError("unknown configuration %s in mode %s" % (name, mode))
    return out


def run_block(ctx, sh, mode, configs, oracle, flags=(True, False), per_dataset=None, only=None, ds_filter=None):
    from .lib import mk_dataset, mk_scheme, labels_for, Back
    schemes = SCHEME_KINDS[sh.get('schemes', 'all')] if isinstance(sh.get('schemes', 'all'), str) else sh['schemes']
    n, lname = sh['n'], sh['labels']
    labels = labels_for(lname, n)
    if only is not None:
        it = [(0, only)]
    else:
        it = spaces.ds_iter_strided(n, sh['m'], sh['shard'], sh['nshards'])
    for index, ds in it:
        if ds_filter is not None and not ds_filter(ds):
            ctx.count('datasets_outside_the_filter')
            continue
        universe = spaces.universe_of(ds)
        back = Back(labels, universe)
        ctx.cases += 1
        for s in schemes:
            ref = Ref(ds, universe, s)
            for cfg in configs:
                for one in flags:
                    def on_start(prefix, _cfg=cfg, _one=one, _s=s):
                        harness.mark({'cfg': {'mode': mode}, 'dataset': ds, 'labels': lname, 'n': n, 'scheme': _s,
                                      'config': _cfg.name, 'one': _one, 'schedule': prefix})
                    for cs, status, value, dataset, scheme in algos.explore_config(
                            cfg, lambda: (mk_dataset(ds, labels), mk_scheme(s)), one, on_start=on_start):
                        ctx.evals += 1
                        info = Info()
                        info.ds, info.lname, info.n, info.universe, info.labels = ds, lname, n, universe, labels
                        info.s, info.cfg, info.one, info.choices = s, cfg, one, cs
                        info.status, info.value, info.back, info.ref, info.mode = status, value, back, ref, mode
                        info.dataset, info.scheme = dataset, scheme
                        oracle(ctx, info)
        if per_dataset:
            per_dataset(ctx, ds)


def replay_case(ctx, c, oracle):
    """re-execute one recorded execution (fresh objects, the recorded schedule, no explorer)."""
    from .lib import mk_dataset, mk_scheme, labels_for, Back, tt, scheme_of
    mode = c['cfg']['mode']
    ds = tt(c['dataset'])
    s = scheme_of(c['scheme'])
    labels = labels_for(c['labels'], c['n'])
    universe = spaces.universe_of(ds)
    cfg = algos.config_by_name(c['config'], mode)
    dataset, scheme = mk_dataset(ds, labels), mk_scheme(s)
    status, value, trace = algos.run_config(cfg, dataset, scheme, c['one'], list(c.get('schedule') or []))
    info = Info()
    info.ds, info.lname, info.n, info.universe, info.labels = ds, c['labels'], c['n'], universe, labels
    info.s, info.cfg, info.one, info.choices = s, cfg, c['one'], [x for _, _, x in trace]
    info.status, info.value, info.back, info.ref, info.mode = status, value, Back(labels, universe), Ref(ds, universe, s), mode
    info.dataset, info.scheme = dataset, scheme
    ctx.evals += 1
    oracle(ctx, info)


def std_phases(blocks_by_mode):
    """blocks_by_mode: {mode: [block dicts]} -> list of phases (one pool per mode)."""
    from .lib import ds_shards
    phases = []
    for mode in algos.MODES:
        blocks = blocks_by_mode.get(mode)
        if not blocks:
            continue
        shards = []
        for b in blocks:
            shards.extend(ds_shards([b], per=b.get('per', 12), maxk=b.get('maxk', 64), mode=mode))
        phases.append({'name': mode, 'cfg': {'mode': mode}, 'shards': shards})
    return phases

"""Shared driver for the cross-algorithm checks: enumerates dataset block x schemes x configurations
x flags x ALL schedules, runs the real algorithm on FRESH dataset / scheme objects and hands every
execution to the check's oracle."""
from . import spaces, refmodel, harness, algos
from .harness import Ctx


class Ref:
    """lazy reference facts about one (dataset, scheme)."""

    def __init__(self, ds, universe, s):
        self.ds, self.universe, self.s = ds, universe, s
        self._table = None
        self._opt = None

    @property
    def table(self):
        if self._table is None:
            self._table = refmodel.ref_table(self.universe, self.ds, self.s[0], self.s[1])
        return self._table

    def score(self, ranking):
        return refmodel.score_from_table(ranking, self.table)

    @property
    def optimum(self):
        """(minimum, list of all minimisers); above 5 elements the minimum comes from the subset DP and the list of
        minimisers is not computed (empty)."""
        if self._opt is None:
            if len(self.universe) <= 5:
                self._opt = refmodel.ref_optimum(self.universe, self.table)
            else:
                self._opt = (refmodel.dp_optimum(self.universe, self.table), [])
        return self._opt


class Info:
    __slots__ = ('ds', 'lname', 'n', 'universe', 'labels', 's', 'sname', 'cfg', 'one', 'choices', 'status', 'value',
                 'back', 'ref', 'mode', 'dataset', 'scheme', 'reused', 'origin')

    def case(self, **extra):
        c = {'cfg': {'mode': self.mode}, 'dataset': self.ds, 'labels': self.lname, 'n': self.n, 'scheme': self.s,
             'config': self.cfg.name, 'one': self.one, 'schedule': self.choices}
        if getattr(self, 'origin', None):
            c['premutated_from'] = {'dataset': self.origin[0], 'removed': self.origin[1]}
        if getattr(self, 'reused', None):
            # the algorithm OBJECT had been used before: the previous inputs are part of the case
            c['reused_after'] = self.reused
        c.update(extra)
        return c

    def rankings(self):
        """abstract rankings of an 'ok' result (assumes well-formedness was checked or is checked by caller)."""
        return [self.back.ranking(r) for r in self.value.consensus_rankings]


SCHEME_KINDS = {
    'all': [s for _, s in spaces.SCHQ],
    'four': [spaces.UNIFYING, spaces.INDUCED_05, spaces.PSEUDO, spaces.B3LTB4],
    'six': [spaces.UNIFYING, spaces.INDUCED_05, spaces.PSEUDO, spaces.B3LTB4, spaces.POSITIONAL, spaces.B5LTT5],
    'three': [spaces.UNIFYING, spaces.PSEUDO, spaces.B5LTT5],
    'two': [spaces.UNIFYING, spaces.B3LTB4],
    'two_b': [spaces.UNIFYING, spaces.PSEUDO_05],
    'one': [spaces.UNIFYING],
    'one_b': [spaces.B3LTB4],
    'ext': [spaces.UNIFYING, spaces.PSEUDO],
    'six_t7': [spaces.UNIFYING, spaces.INDUCED_05, spaces.PSEUDO, spaces.B3LTB4, spaces.POSITIONAL, spaces.B5LTT5,
               spaces.UNIFYING_TINY, spaces.INDUCED05_TINY, spaces.B1EQ3T0, spaces.HUGE_TINY],
    'six_t': [spaces.UNIFYING, spaces.INDUCED_05, spaces.PSEUDO, spaces.B3LTB4, spaces.POSITIONAL, spaces.B5LTT5,
              spaces.UNIFYING_TINY, spaces.INDUCED05_TINY, spaces.B5T5HUGE, spaces.HUGE_TINY],
    'three_t': [spaces.UNIFYING, spaces.PSEUDO, spaces.B5LTT5, spaces.UNIFYING_TINY, spaces.INDUCED05_TINY],
    'one_t': [spaces.UNIFYING_TINY],
    'two_h': [spaces.UNIFYING, spaces.B5T5HUGE],
    'two_t': [spaces.UNIFYING, spaces.B3LTB4, spaces.UNIFYING_TINY],
    'rest11': [x for _, x in spaces.SCHQ if x not in (spaces.UNIFYING, spaces.INDUCED_05, spaces.PSEUDO, spaces.B3LTB4,
                                                      spaces.POSITIONAL, spaces.B5LTT5)],
    'tiny': [spaces.UNIFYING_TINY, spaces.INDUCED05_TINY],
    'c15': [spaces.UNIFYING, spaces.EXTENDED, spaces.B3LTB4],
    'cycle': [spaces.UNIFYING, spaces.UNIFYING_P0375, spaces.INDUCED],
    'ext1': [spaces.UNIFYING],
}


def select_configs(mode, want):
    """want: callable(Config) -> bool, or list of names."""
    cs = algos.all_configs(mode)
    if callable(want):
        return [c for c in cs if want(c)]
    by = {c.name: c for c in cs + algos.nested_configs(mode)}
    out = []
    for name in want:
        if name in by:
            out.append(by[name])
        elif not name.startswith('ExactCplex'):
            raise harness.HarnessError("unknown configuration %s in mode %s" % (name, mode))
    return out


def ext43_datasets(sh, schemes):
    """The sub-space DS(3,3)+x, enumerated completely: every dataset of DS(3,3) over elements {1,2,3} that has a
    component which cannot be all-tied at minimal cost under at least one scheme of the block, extended by a fourth
    element 0 that is, in each of the three rankings, absent / alone in a new first bucket / alone in a new last
    bucket (all 27 extension patterns with ext='all27', the 7 patterns of EXT7 otherwise).  This is where a non-trivial component coexists with other components, which no
    dataset of DS(3,2), DS(3,3) or DS(4,2) offers."""
    from itertools import product
    for index, core in spaces.ds_iter_strided(3, 3, sh['shard'], sh['nshards']):
        core = tuple(tuple(tuple(x + 1 for x in b) for b in r) for r in core)
        uni = spaces.universe_of(core)
        if len(uni) < 3:
            continue
        if not any(refmodel.nontrivial_components(uni, refmodel.ref_table(uni, core, s[0], s[1])) for s in schemes):
            continue
        exts = EXT7 if sh.get('ext') != 'all27' else list(product(range(3), repeat=3))
        for ext in exts:
            ds = tuple(r if e == 0 else (((0,),) + r if e == 1 else r + ((0,),)) for r, e in zip(core, ext))
            yield index * 27 + ext[0] * 9 + ext[1] * 3 + ext[2], ds


# the quick tiers use 7 of the 27 extension patterns (0 absent, 1 new first bucket, 2 new last bucket, per ranking):
# always first, always last, first/first/absent, last/last/absent, absent/first/last, first/last/first, absent/absent/first
EXT7 = [(1, 1, 1), (2, 2, 2), (1, 1, 0), (2, 2, 0), (0, 1, 2), (1, 2, 1), (0, 0, 1)]


def family7_datasets(sh):
    """Two independent blocks side by side, 7 elements, 3 rankings: block A over {0,1,2,3}, block B over {4,5,6}, each
    taken from a small catalogue of cyclic cores (rotations, one with a tie, one truncated), ranking i = A_i ++ B_i or
    B_i ++ A_i.  Gives TWO components that cannot be all-tied, of sizes 4 and 3, in both orders - the smallest shape
    where one component is delegated to the auxiliary algorithm and a later one is solved exactly (bound 3)."""
    def rot(t, k):
        return tuple(t[k:] + t[:k])
    a = ((0,), (1,), (2,), (3,))
    b = ((4,), (5,), (6,))
    fam_a = [(rot(a, 0), rot(a, 1), rot(a, 2)), (rot(a, 0), rot(a, 2), rot(a, 3)),
             (((0, 1), (2,), (3,)), rot(a, 1), rot(a, 2)), (rot(a, 0), rot(a, 1)[:3], rot(a, 2)),
             (tuple(reversed(a)), rot(a, 1), rot(a, 3))]
    fam_b = [(rot(b, 0), rot(b, 1), rot(b, 2)), (rot(b, 0), rot(b, 2), rot(b, 1)),
             (((4, 5), (6,)), rot(b, 1), rot(b, 2)), (rot(b, 0), rot(b, 1)[:2], rot(b, 2))]
    idx = 0
    for ca in fam_a:
        for cb in fam_b:
            for order in (0, 1):
                idx += 1
                if idx % sh['nshards'] != sh['shard']:
                    continue
                yield idx, tuple((x + y) if order == 0 else (y + x) for x, y in zip(ca, cb))


def premutated(it):
    """for every dataset ds0 of the underlying space: the markers ('premutated', ds0, x) for every element x of its
    universe (>= 2 elements, the removal must leave a ranking) and ('premutated', ds0, 'empties') when ds0 contains an
    empty ranking (mutation = remove_empty_rankings)."""
    for index, ds0 in it:
        uni = spaces.universe_of(ds0)
        if any(len(r) == 0 for r in ds0):
            yield index, ('premutated', ds0, 'empties')
        if len(uni) < 2:
            continue
        for x in uni:
            if len(refmodel.remove_elements(ds0, {x})) > 0:
                yield index, ('premutated', ds0, x)


from .lib import mutate_in_place  # noqa: E402


from .lib import consensus_snapshot as _snapshot  # noqa: E402


def consensus_snapshot(c, back=None):
    return _snapshot(c)


def run_block(ctx, sh, mode, configs, oracle, flags=(True, False), per_dataset=None, only=None, ds_filter=None):
    from .lib import mk_dataset, mk_scheme, labels_for, Back
    schemes = SCHEME_KINDS[sh.get('schemes', 'all')] if isinstance(sh.get('schemes', 'all'), str) else sh['schemes']
    n, lname = sh['n'], sh['labels']
    labels = labels_for(lname, n)
    if only is not None:
        it = [(0, only)]
    elif sh.get('space') == 'ext43':
        it = ext43_datasets(sh, schemes)
    elif sh.get('space') == 'family7':
        it = family7_datasets(sh)
    else:
        it = spaces.ds_iter_strided(n, sh['m'], sh['shard'], sh['nshards'])
    # the reused-object pass runs on the small blocks (<= 2000 datasets) and on the DS(3,3)+x sub-space
    if sh.get('premutate'):
        it = premutated(it)
    reuse = sh.get('reuse', sh.get('space') is None and n <= 5 and spaces.SWO_COUNT[n] ** sh['m'] <= 2000)
    instances, history, earlier = {}, {}, {}
    for index, ds in it:
        if ds_filter is not None and not ds_filter(ds):
            ctx.count('datasets_outside_the_filter')
            continue
        origin = None
        if isinstance(ds, tuple) and len(ds) == 3 and ds[0] == 'premutated':
            # ('premutated', ds0, x): the input is the REAL object built from ds0, looked at, then mutated in place by
            # remove_elements({x}); the reference dataset is the list-of-sets model of that removal
            _, ds0, x = ds
            origin = (ds0, x)
            ds = tuple(r for r in ds0 if len(r) > 0) if x == 'empties' else refmodel.remove_elements(ds0, {x})
        universe = spaces.universe_of(ds)
        back = Back(labels, universe)
        ctx.cases += 1

        def build_dataset(_ds=ds, _origin=origin):
            if _origin is None:
                return mk_dataset(_ds, labels)
            from .lib import observe_dataset
            d = mk_dataset(_origin[0], labels)
            observe_dataset(d)
            mutate_in_place(d, labels, _origin[1])
            return d
        for s in schemes:
            ref = Ref(ds, universe, s)
            for cfg in configs:
                for one in flags:
                    def on_start(prefix, _cfg=cfg, _one=one, _s=s):
                        harness.mark({'cfg': {'mode': mode}, 'dataset': ds, 'labels': lname, 'n': n, 'scheme': _s,
                                      'config': _cfg.name, 'one': _one, 'schedule': prefix, 'premutated_from': origin})
                    for cs, status, value, dataset, scheme in algos.explore_config(
                            cfg, lambda: (build_dataset(), mk_scheme(s)), one, on_start=on_start):
                        ctx.evals += 1
                        info = Info()
                        info.ds, info.lname, info.n, info.universe, info.labels = ds, lname, n, universe, labels
                        info.s, info.cfg, info.one, info.choices = s, cfg, one, cs
                        info.status, info.value, info.back, info.ref, info.mode = status, value, back, ref, mode
                        info.dataset, info.scheme, info.reused = dataset, scheme, None
                        info.origin = origin
                        oracle(ctx, info)
                    if origin is not None:
                        # history on BOTH objects: the algorithm object first runs on the dataset object as it was,
                        # the dataset is then mutated in place, and the SAME algorithm object runs on it again
                        from .lib import observe_dataset
                        from . import chooser
                        dataset, scheme = mk_dataset(origin[0], labels), mk_scheme(s)
                        try:
                            alg = cfg.factory()
                            with chooser.Chooser([]):
                                try:
                                    alg.compute_consensus_rankings(dataset, scheme, one)
                                except Exception:
                                    pass
                            observe_dataset(dataset)
                            mutate_in_place(dataset, labels, origin[1])
                        except Exception:
                            alg = None
                        if alg is not None:
                            harness.mark({'cfg': {'mode': mode}, 'dataset': ds, 'labels': lname, 'n': n, 'scheme': s,
                                          'config': cfg.name, 'one': one, 'schedule': [], 'premutated_from': origin,
                                          'same_algorithm_object_ran_before_the_mutation': True})
                            status, value, trace = algos.run_config(cfg, dataset, scheme, one, None, alg=alg)
                            ctx.evals += 1
                            info = Info()
                            info.ds, info.lname, info.n, info.universe, info.labels = ds, lname, n, universe, labels
                            info.s, info.cfg, info.one, info.choices = s, cfg, one, [c for _, _, c in trace]
                            info.status, info.value, info.back, info.ref, info.mode = status, value, back, ref, mode
                            info.dataset, info.scheme, info.origin = dataset, scheme, origin
                            info.reused = [{'note': 'same algorithm object ran on this dataset object before it was mutated'}]
                            oracle(ctx, info)
                            ctx.count('executions_after_run_mutate_on_the_same_objects')
                    if reuse:
                        # the same inputs once more on a long-lived algorithm object that has already served the
                        # previous inputs of this shard (stale caches, remembered decisions, shared feature dicts)
                        key = cfg.name
                        if key not in instances:
                            try:
                                instances[key] = cfg.factory()
                            except Exception:
                                instances[key] = None
                            history[key] = []
                        if instances[key] is not None:
                            dataset, scheme = build_dataset(), mk_scheme(s)
                            prev = list(history[key][-2:])
                            harness.mark({'cfg': {'mode': mode}, 'dataset': ds, 'labels': lname, 'n': n, 'scheme': s,
                                          'config': cfg.name, 'one': one, 'schedule': [], 'reused_after': prev})
                            status, value, trace = algos.run_config(cfg, dataset, scheme, one, None, alg=instances[key])
                            ctx.evals += 1
                            info = Info()
                            info.ds, info.lname, info.n, info.universe, info.labels = ds, lname, n, universe, labels
                            info.s, info.cfg, info.one, info.choices = s, cfg, one, [c for _, _, c in trace]
                            info.status, info.value, info.back, info.ref, info.mode = status, value, back, ref, mode
                            info.dataset, info.scheme = dataset, scheme
                            info.reused = prev or [{'note': 'first use of this object'}]
                            info.origin = origin
                            oracle(ctx, info)
                            # a result handed out earlier by this object must not have been changed by this call
                            old = earlier.get(key)
                            if old is not None and consensus_snapshot(old[0], None) != old[1]:
                                ctx.violation('earlier-result-changed-by-a-later-call', info.case(earlier_case=old[2]),
                                              repr(consensus_snapshot(old[0], None))[:300], repr(old[1])[:300])
                            if status == 'ok':
                                earlier[key] = (value, consensus_snapshot(value, None), {'dataset': ds, 'scheme': s, 'one': one})
                            history[key].append({'dataset': ds, 'scheme': s, 'one': one})
                            ctx.count('executions_on_a_reused_algorithm_object')
                            # ... the same abstract dataset presented with ANOTHER label set on the same object (e.g.
                            # ints 0..3 then 'a','1','2','3': identical digit names, different element types)
                            if sh.get('twin_labels') and one:
                                from .lib import labels_for as _lf
                                labels2 = _lf(sh['twin_labels'], n)
                                back2 = Back(labels2, universe)
                                dataset, scheme = mk_dataset(ds, labels2), mk_scheme(s)
                                harness.mark({'cfg': {'mode': mode}, 'dataset': ds, 'labels': sh['twin_labels'], 'n': n,
                                              'scheme': s, 'config': cfg.name, 'one': one, 'schedule': []})
                                status, value, trace = algos.run_config(cfg, dataset, scheme, one, None, alg=instances[key])
                                ctx.evals += 1
                                info = Info()
                                info.ds, info.lname, info.n, info.universe, info.labels = ds, sh['twin_labels'], n, universe, labels2
                                info.s, info.cfg, info.one, info.choices = s, cfg, one, [c for _, _, c in trace]
                                info.status, info.value, info.back, info.ref, info.mode = status, value, back2, ref, mode
                                info.dataset, info.scheme, info.origin = dataset, scheme, None
                                info.reused = [{'dataset': ds, 'scheme': s, 'one': one, 'labels': lname}]
                                oracle(ctx, info)
                                ctx.count('executions_on_a_reused_object_after_the_same_data_under_other_labels')
                            # ... and immediately afterwards its twin: the same rankings in reverse order (an equal
                            # Dataset whose element ids differ) on the same object
                            twin = tuple(reversed(ds))
                            if origin is None and twin != ds and one:
                                prev = list(history[key][-2:])
                                dataset, scheme = mk_dataset(twin, labels), mk_scheme(s)
                                harness.mark({'cfg': {'mode': mode}, 'dataset': twin, 'labels': lname, 'n': n, 'scheme': s,
                                              'config': cfg.name, 'one': one, 'schedule': [], 'reused_after': prev})
                                status, value, trace = algos.run_config(cfg, dataset, scheme, one, None, alg=instances[key])
                                ctx.evals += 1
                                info = Info()
                                info.ds, info.lname, info.n, info.universe, info.labels = twin, lname, n, universe, labels
                                info.s, info.cfg, info.one, info.choices = s, cfg, one, [c for _, _, c in trace]
                                info.status, info.value, info.back, info.mode = status, value, back, mode
                                info.ref = Ref(twin, universe, s)
                                info.dataset, info.scheme, info.reused, info.origin = dataset, scheme, prev, None
                                oracle(ctx, info)
                                history[key].append({'dataset': twin, 'scheme': s, 'one': one})
                                ctx.count('executions_on_a_reused_object_with_the_reversed_twin')
        if per_dataset:
            per_dataset(ctx, ds)


def replay_case(ctx, c, oracle):
    """re-execute one recorded execution (fresh objects, the recorded schedule, no explorer)."""
    from .lib import mk_dataset, mk_scheme, labels_for, Back, tt, scheme_of
    mode = c['cfg']['mode']
    ds = tt(c['dataset'])
    s = scheme_of(c['scheme'])
    labels = labels_for(c['labels'], c['n'])
    universe = spaces.universe_of(ds)
    cfg = algos.config_by_name(c['config'], mode)
    dataset, scheme = mk_dataset(ds, labels), mk_scheme(s)
    origin = None
    if c.get('premutated_from'):
        from .lib import observe_dataset
        origin = (tt(c['premutated_from']['dataset']), c['premutated_from']['removed'])
        dataset = mk_dataset(origin[0], labels)
        alg0 = None
        if c.get('reused_after'):
            # the same algorithm object ran on the dataset before the mutation
            alg0 = cfg.factory()
            algos.run_config(cfg, dataset, scheme, c['one'], None, alg=alg0)
        observe_dataset(dataset)
        mutate_in_place(dataset, labels, origin[1])
        if alg0 is not None:
            status, value, trace = algos.run_config(cfg, dataset, scheme, c['one'], None, alg=alg0)
            info = Info()
            info.ds, info.lname, info.n, info.universe, info.labels = ds, c['labels'], c['n'], universe, labels
            info.s, info.cfg, info.one, info.choices = s, cfg, c['one'], [x for _, _, x in trace]
            info.status, info.value, info.back, info.ref, info.mode = status, value, Back(labels, universe), Ref(ds, universe, s), mode
            info.dataset, info.scheme, info.reused, info.origin = dataset, scheme, c.get('reused_after'), origin
            ctx.evals += 1
            oracle(ctx, info)
            return
    alg = None
    if c.get('reused_after'):
        alg = cfg.factory()
        for prev in c['reused_after']:
            if 'dataset' in prev:
                plabels = labels_for(prev['labels'], c['n']) if prev.get('labels') else labels
                algos.run_config(cfg, mk_dataset(tt(prev['dataset']), plabels), mk_scheme(scheme_of(prev['scheme'])),
                                 prev['one'], None, alg=alg)
    status, value, trace = algos.run_config(cfg, dataset, scheme, c['one'],
                                            list(c.get('schedule') or []) if alg is None else None, alg=alg)
    info = Info()
    info.ds, info.lname, info.n, info.universe, info.labels = ds, c['labels'], c['n'], universe, labels
    info.s, info.cfg, info.one, info.choices = s, cfg, c['one'], [x for _, _, x in trace]
    info.status, info.value, info.back, info.ref, info.mode = status, value, Back(labels, universe), Ref(ds, universe, s), mode
    info.dataset, info.scheme, info.reused, info.origin = dataset, scheme, c.get('reused_after'), origin
    ctx.evals += 1
    oracle(ctx, info)


def std_phases(blocks_by_mode):
    """blocks_by_mode: {mode: [block dicts]} -> list of phases (one pool per mode)."""
    from .lib import ds_shards
    phases = []
    for mode in algos.MODES:
        blocks = blocks_by_mode.get(mode)
        if not blocks:
            continue
        shards = []
        for b in blocks:
            if b.get('space') == 'family7':
                k = b.get('maxk', 16)
                for x in range(k):
                    shards.append(dict(b, n=7, m=3, shard=x, nshards=k, mode=mode))
                continue
            if b.get('space') == 'ext43':
                b = dict(b, n=3, m=3)     # striped over the DS(3,3) cores; the datasets have 4 elements
                sh = ds_shards([b], per=b.get('per', 100), maxk=b.get('maxk', 64), mode=mode)
                for x in sh:
                    x['n'] = 4
                shards.extend(sh)
                continue
            shards.extend(ds_shards([b], per=b.get('per', 12), maxk=b.get('maxk', 64), mode=mode))
        phases.append({'name': mode, 'cfg': {'mode': mode}, 'shards': shards})
    return phases
